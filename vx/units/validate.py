"""Units for C08 part A: validation on raw messages (v1_ext/instance.rs, linear.rs, v1_ext/function.rs)."""
from vx.core import Unit

F = 'v1_ext/instance.rs'
I = r'impl Instance \{'
W = ('impl Instance {', '}')

USED_STUBS = ''


def quadratic_used_ids():
    return Unit('Quadratic::used_decision_variable_ids', 'quadratic.rs', 'used_decision_variable_ids', impl=r'impl Quadratic \{', wrap=('impl Quadratic {', '}'),
                sig='pub fn used_decision_variable_ids(&self) -> BTreeSet<u64>', anyhow=False,
                header='''pub fn used_decision_variable_ids(&self) -> (r: BTreeSet<u64>)
        // the ids of the linear part, every column entry and every row entry (whatever the lengths of the COO arrays)
        ensures r@ =~= quadratic_used(*self),''',
                pre_rsubs=[(r'(?s)self\s*\.linear\s*\.as_ref\(\)\s*\.map_or_else\(BTreeSet::new, (\|l\| l\.used_decision_variable_ids\(\))\)', r'opt_ref_map_or_new(&self.linear, \1)', 1)],
                pipes=[r'(?s)^\{\s*(.*\S)\s*\}\s*$'], pipe_opts=dict(collect='vec_to_btreeset', into_iter='btreeset_into_vec'),
                closures=[dict(params='l', typed='l: &Linear', ret='BTreeSet<u64>', ensures='ret@ =~= linear_ids(*l)')],
                proofs=[(('before', r'__coll1 \}\s*\}\s*$'), '''proof {
            let lin = if self.linear is Some { linear_ids(self.linear->Some_0) } else { Set::<u64>::empty() };
            assert(__into1@.to_set() =~= lin);
            assert forall|k: u64| __coll1@.contains(k) <==> quadratic_used(*self).contains(k) by {
                if __chain2@.contains(k) { let j = choose|j: int| 0 <= j < __chain2.len() && __chain2[j] == k;
                    if j < __into1.len() { assert(__into1[j] == k); assert(__into1@.contains(k)); } else { let i = j - __into1.len(); assert(__cloned1[i] == k);
                        if i < __refs1.len() { assert(*__refs1[i] == self.columns[i]); assert(self.columns@.contains(k)); } else { let t = i - __refs1.len(); assert(*__refs2[t] == self.rows[t]); assert(self.rows@.contains(k)); } } }
                if lin.contains(k) { assert(__into1@.contains(k)); let j = choose|j: int| 0 <= j < __into1.len() && __into1[j] == k; assert(__chain2[j] == k); }
                if self.columns@.contains(k) { let j = choose|j: int| 0 <= j < self.columns.len() && self.columns[j] == k; assert(__cloned1[j] == *__chain1[j]); assert(__chain2[__into1.len() + j] == k); }
                if self.rows@.contains(k) { let j = choose|j: int| 0 <= j < self.rows.len() && self.rows[j] == k; assert(__cloned1[__refs1.len() + j] == *__chain1[__refs1.len() + j]); assert(__chain2[__into1.len() + __refs1.len() + j] == k); }
            }
        }
        ''')])


def polynomial_used_ids():
    return Unit('Polynomial::used_decision_variable_ids', 'polynomial.rs', 'used_decision_variable_ids', impl=r'impl Polynomial \{', wrap=('impl Polynomial {', '}'),
                sig='pub fn used_decision_variable_ids(&self) -> BTreeSet<u64>', anyhow=False,
                header='''pub fn used_decision_variable_ids<'a>(&'a self) -> (r: BTreeSet<u64>)
        // every id of every monomial (the lifetime is named so that the closure handed to flat_map can be given its type)
        ensures r@ =~= polynomial_ids(*self),''',
                pipes=[r'(?s)^\{\s*(.*\S)\s*\}\s*$'], pipe_opts=dict(collect='vec_to_btreeset'),
                closures=[dict(params='term', typed="term: &'a Monomial", ret="Vec<&'a u64>", ensures='ret.len() == term.ids.len() && forall|q: int| 0 <= q < ret.len() ==> *(#[trigger] ret[q]) == term.ids[q]')],
                proofs=[(('before', r'__coll1 \}\s*\}\s*$'), '''proof {
            let outs = choose|outs: Seq<Vec<&'a u64>>| outs.len() == __refs1.len() && (forall|i: int| 0 <= i < __refs1.len() ==> __c1.ensures((__refs1[i],), #[trigger] outs[i])) && __flat1@ == flat(Seq::new(outs.len(), |i: int| outs[i]@), __refs1.len() as int);
            let oo = Seq::new(outs.len(), |i: int| outs[i]@); let n = self.terms.len() as int;
            assert forall|k: u64| __coll1@.contains(k) <==> polynomial_ids(*self).contains(k) by {
                lemma_poly_ids_mem(self.terms@, n, k);
                if __cloned1@.contains(k) {
                    let j = choose|j: int| 0 <= j < __cloned1.len() && __cloned1[j] == k;
                    assert(__flat1@.contains(__flat1[j]));
                    lemma_flat_mem(oo, n, __flat1[j]);
                    let i = choose|i: int| 0 <= i < n && (#[trigger] oo[i]).contains(__flat1[j]);
                    let q = choose|q: int| 0 <= q < oo[i].len() && oo[i][q] == __flat1[j];
                    assert(*__refs1[i] == self.terms[i]); assert(__c1.ensures((__refs1[i],), outs[i]));
                    assert(self.terms[i].ids[q] == k);
                    lemma_mono_ids_mem(self.terms[i].ids@, self.terms[i].ids.len() as int, k);
                }
                if polynomial_ids(*self).contains(k) {
                    let i = choose|i: int| 0 <= i < n && #[trigger] mono_ids(self.terms@[i].ids@, self.terms@[i].ids.len() as int).contains(k);
                    lemma_mono_ids_mem(self.terms[i].ids@, self.terms[i].ids.len() as int, k);
                    let q = choose|q: int| 0 <= q < self.terms[i].ids.len() && self.terms[i].ids@[q] == k;
                    assert(*__refs1[i] == self.terms[i]); assert(__c1.ensures((__refs1[i],), outs[i]));
                    assert(*oo[i][q] == k); assert(oo[i].contains(oo[i][q]));
                    lemma_flat_mem(oo, n, oo[i][q]);
                    let j = choose|j: int| 0 <= j < __flat1.len() && __flat1[j] == oo[i][q];
                    assert(__cloned1[j] == k);
                }
            }
        }
        ''')],
                rsubs=[(r'let __flat1 = vec_flat_map\(__refs1, ', 'let __c1 = ', 1), (r'\}\); let __cloned1 = vec_cloned', '}; let __flat1 = vec_flat_map(__refs1, __c1); let __cloned1 = vec_cloned', 1)])


def linear_used_ids():
    return Unit('Linear::used_decision_variable_ids', 'linear.rs', 'used_decision_variable_ids', impl=r'impl Linear \{', wrap=('impl Linear {', '}'),
                sig='pub fn used_decision_variable_ids(&self) -> BTreeSet<u64>',
                header='''pub fn used_decision_variable_ids(&self) -> (r: BTreeSet<u64>)
        ensures r@ =~= linear_ids(*self),''',
                closures=[dict(params='term', typed='term: &LinearTerm', ret='u64', ensures='ret == term.id')],
                rsubs=[(r'self\.terms\.iter\(\)\.map\((\|term\| term\.id)\)\.collect\(\)', r'iter_map_collect_set(&self.terms, \1)', 1)],
                proofs=[(('after', r'iter_map_collect_set\(&self\.terms, [^;]*\)\s*$'), '')] if False else [],
                )


def function_used_ids():
    return Unit('Function::used_decision_variable_ids', 'v1_ext/function.rs', 'used_decision_variable_ids', impl=r'impl Function \{', wrap=('impl Function {', '}'),
                sig='pub fn used_decision_variable_ids(&self) -> BTreeSet<u64>',
                header='''pub fn used_decision_variable_ids(&self) -> (r: BTreeSet<u64>)
        ensures r@ =~= fn_used(*self),''')


def defined_ids():
    return Unit('Instance::defined_ids', F, 'defined_ids', impl=I, wrap=W, sig='pub fn defined_ids(&self) -> BTreeSet<u64>',
                header='''pub fn defined_ids(&self) -> (r: BTreeSet<u64>)
        ensures r@ =~= dv_ids(self.decision_variables@, self.decision_variables.len() as int),''',
                closures=[dict(params='dv', typed='dv: &DecisionVariable', ret='u64', ensures='ret == dv.id')],
                rsubs=[(r'self\.decision_variables\.iter\(\)\.map\((\|dv\| dv\.id)\)\.collect::<BTreeSet<_>>\(\)', r'iter_map_collect_set(&self.decision_variables, \1)', 1)])


def used_decision_variable_ids():
    return Unit('Instance::used_decision_variable_ids', F, 'used_decision_variable_ids', impl=I, wrap=W,
                sig='pub fn used_decision_variable_ids(&self) -> BTreeSet<u64>',
                header='''pub fn used_decision_variable_ids(&self) -> (r: BTreeSet<u64>)
        ensures r@ =~= inst_used(*self),''',
                rsubs=[(r'used_ids\.extend\((c\.function\(\)\.used_decision_variable_ids\(\))\);', r'btreeset_extend(&mut used_ids, \1);', None)],
                loops=[dict(kind='for', it='it_1', inv='''invariant used_ids@ =~= fn_used(ofun(*self)).union(cs_used(self.constraints@, it_1.index@ as int)),'''),
                       dict(kind='for', it='it_2', inv='''invariant used_ids@ =~= fn_used(ofun(*self)).union(cs_used(self.constraints@, self.constraints.len() as int)).union(rcs_used(self.removed_constraints@, it_2.index@ as int)),''')])


def validate_decision_variable_ids():
    return Unit('Instance::validate_decision_variable_ids', F, 'validate_decision_variable_ids', impl=I, wrap=W,
                sig='pub fn validate_decision_variable_ids(&self) -> Result<()>',
                header='''pub fn validate_decision_variable_ids(&self) -> (r: Result<(), VErr>)
        // succeeds EXACTLY when the decision-variable ids are pairwise distinct and every used id is defined
        ensures r is Ok <==> (dv_ids_distinct(self.decision_variables@)
            && inst_used(*self).subset_of(dv_ids(self.decision_variables@, self.decision_variables.len() as int))),''',
                rsubs=[(r'let undefined_ids = used_ids\.difference\(&defined_ids\)\.collect::<Vec<_>>\(\);', '', 1)],
                loops=[dict(kind='for', it='it_1', inv='''invariant
                defined_ids@ =~= dv_ids(self.decision_variables@, it_1.index@ as int),
                forall|i: int, j: int| 0 <= i < j < it_1.index@ ==> (#[trigger] self.decision_variables[i]).id != (#[trigger] self.decision_variables[j]).id,''',
                            body_proof=' proof { lemma_dv_ids_mem(self.decision_variables@, it_1.index@ as int, dv.id); }')])


def validate_constraint_ids():
    return Unit('Instance::validate_constraint_ids', F, 'validate_constraint_ids', impl=I, wrap=W,
                sig='pub fn validate_constraint_ids(&self) -> Result<()>',
                header='''pub fn validate_constraint_ids(&self) -> (r: Result<(), VErr>)
        // succeeds EXACTLY when constraint ids are pairwise distinct across active and removed constraints
        ensures r is Ok <==> c_ids_distinct(self.constraints@, self.removed_constraints@),''',
                rsubs=[(r'let mut map = HashSet::new\(\);', 'let mut map: HashSet<u64> = HashSet::new();', 1)],
                loops=[dict(kind='for', it='it_1', inv='''invariant
                map@ =~= c_id_set(self.constraints@, it_1.index@ as int),
                forall|i: int, j: int| 0 <= i < j < it_1.index@ ==> (#[trigger] self.constraints[i]).id != (#[trigger] self.constraints[j]).id,''',
                            body_proof=' proof { lemma_c_id_set_mem(self.constraints@, it_1.index@ as int, c.id); }'),
                       dict(kind='for', it='it_2', inv='''invariant
                map@ =~= c_id_set(self.constraints@, self.constraints.len() as int).union(rc_id_set(self.removed_constraints@, it_2.index@ as int)),
                forall|i: int, j: int| 0 <= i < j < self.constraints.len() ==> (#[trigger] self.constraints[i]).id != (#[trigger] self.constraints[j]).id,
                forall|i: int, j: int| 0 <= i < j < it_2.index@ && rc_id(self.removed_constraints[i]) is Some ==> rc_id(#[trigger] self.removed_constraints[i]) != rc_id(#[trigger] self.removed_constraints[j]),
                forall|i: int, j: int| 0 <= i < self.constraints.len() && 0 <= j < it_2.index@ ==> Some((#[trigger] self.constraints[i]).id) != rc_id(#[trigger] self.removed_constraints[j]),''',
                            body_proof=''' proof { if c.constraint is Some { let k = c.constraint->Some_0.id;
                lemma_c_id_set_mem(self.constraints@, self.constraints.len() as int, k); lemma_rc_id_set_mem(self.removed_constraints@, it_2.index@ as int, k); } }''')])


def validate():
    return Unit('Instance::validate', F, 'validate', impl=I, wrap=W, sig='pub fn validate(&self) -> Result<()>',
                header='''pub fn validate(&self) -> (r: Result<(), VErr>)
        // Instance validation succeeds exactly when variable ids are unique, constraint ids are unique across active and removed
        // constraints, and every variable used in the objective, constraints or removed constraints is defined
        ensures r is Ok <==> (dv_ids_distinct(self.decision_variables@) && c_ids_distinct(self.constraints@, self.removed_constraints@)
            && inst_used(*self).subset_of(dv_ids(self.decision_variables@, self.decision_variables.len() as int))),''')


# ---- parametric instance ----
P = 'parametric_instance.rs'
PI = r'impl ParametricInstance \{'
PW = ('impl ParametricInstance {', '}')


def p_objective():
    return Unit('ParametricInstance::objective', P, 'objective', impl=PI, wrap=PW, sig='pub fn objective(&self) -> Cow<Function>',
                header='''pub fn objective(&self) -> (r: Function)
    ensures r == pfun(*self),''',
                subs=[('Cow::Borrowed(f)', 'f.vclone()'), ('Cow::Owned(Function::default())', 'Function::default()')],
                proofs=[])


def p_used_ids():
    return Unit('ParametricInstance::used_ids', P, 'used_ids', impl=PI, wrap=PW, sig='pub fn used_ids(&self) -> Result<BTreeSet<u64>>',
                header='''pub fn used_ids(&self) -> (r: Result<BTreeSet<u64>, VErr>)
        ensures r is Ok, r->Ok_0@ =~= pinst_used(*self),''',
                rsubs=[(r'used_ids\.extend\((c\.function\(\)\.used_decision_variable_ids\(\))\);', r'btreeset_extend(&mut used_ids, \1);', None)],
                loops=[dict(kind='for', it='it_1', inv='''invariant used_ids@ =~= fn_used(pfun(*self)).union(cs_used(self.constraints@, it_1.index@ as int)),''')])


def p_validate_ids():
    return Unit('ParametricInstance::validate_ids', P, 'validate_ids', impl=PI, wrap=PW, sig='pub fn validate_ids(&self) -> Result<()>',
                header='''pub fn validate_ids(&self) -> (r: Result<(), VErr>)
        // succeeds EXACTLY when decision-variable and parameter ids are jointly unique and cover every id used by the objective and the active constraints
        ensures r is Ok <==> (joint_ids_distinct(self.decision_variables@, self.parameters@)
            && pinst_used(*self).subset_of(dv_ids(self.decision_variables@, self.decision_variables.len() as int).union(p_ids(self.parameters@, self.parameters.len() as int)))),''',
                rsubs=[(r'let sub = used_ids\.difference\(&ids\)\.collect::<BTreeSet<_>>\(\);', '', 1),
                       (r'let mut ids = BTreeSet::new\(\);', 'let mut ids: BTreeSet<u64> = BTreeSet::new();', 1)],
                loops=[dict(kind='for', it='it_1', inv='''invariant
                ids@ =~= dv_ids(self.decision_variables@, it_1.index@ as int),
                forall|i: int, j: int| 0 <= i < j < it_1.index@ ==> (#[trigger] self.decision_variables[i]).id != (#[trigger] self.decision_variables[j]).id,''',
                            body_proof=' proof { lemma_dv_ids_mem(self.decision_variables@, it_1.index@ as int, dv.id); }'),
                       dict(kind='for', it='it_2', inv='''invariant
                ids@ =~= dv_ids(self.decision_variables@, self.decision_variables.len() as int).union(p_ids(self.parameters@, it_2.index@ as int)),
                dv_ids_distinct(self.decision_variables@),
                forall|i: int, j: int| 0 <= i < j < it_2.index@ ==> (#[trigger] self.parameters[i]).id != (#[trigger] self.parameters[j]).id,
                forall|i: int, j: int| 0 <= i < self.decision_variables.len() && 0 <= j < it_2.index@ ==> (#[trigger] self.decision_variables[i]).id != (#[trigger] self.parameters[j]).id,''',
                            body_proof=' proof { lemma_dv_ids_mem(self.decision_variables@, self.decision_variables.len() as int, p.id); lemma_p_ids_mem(self.parameters@, it_2.index@ as int, p.id); }')])


def p_validate_constraint_ids():
    return Unit('ParametricInstance::validate_constraint_ids', P, 'validate_constraint_ids', impl=PI, wrap=PW, sig='pub fn validate_constraint_ids(&self) -> Result<()>',
                header='''pub fn validate_constraint_ids(&self) -> (r: Result<(), VErr>)
        ensures r is Ok <==> c_ids_distinct(self.constraints@, self.removed_constraints@),''',
                rsubs=[(r'let mut ids = BTreeSet::new\(\);', 'let mut ids: BTreeSet<u64> = BTreeSet::new();', 1)],
                loops=[dict(kind='for', it='it_1', inv='''invariant
                ids@ =~= c_id_set(self.constraints@, it_1.index@ as int),
                forall|i: int, j: int| 0 <= i < j < it_1.index@ ==> (#[trigger] self.constraints[i]).id != (#[trigger] self.constraints[j]).id,''',
                            body_proof=' proof { lemma_c_id_set_mem(self.constraints@, it_1.index@ as int, c.id); }'),
                       dict(kind='for', it='it_2', inv='''invariant
                ids@ =~= c_id_set(self.constraints@, self.constraints.len() as int).union(rc_id_set(self.removed_constraints@, it_2.index@ as int)),
                forall|i: int, j: int| 0 <= i < j < self.constraints.len() ==> (#[trigger] self.constraints[i]).id != (#[trigger] self.constraints[j]).id,
                forall|i: int, j: int| 0 <= i < j < it_2.index@ && rc_id(self.removed_constraints[i]) is Some ==> rc_id(#[trigger] self.removed_constraints[i]) != rc_id(#[trigger] self.removed_constraints[j]),
                forall|i: int, j: int| 0 <= i < self.constraints.len() && 0 <= j < it_2.index@ ==> Some((#[trigger] self.constraints[i]).id) != rc_id(#[trigger] self.removed_constraints[j]),''',
                            body_proof=''' proof { if c.constraint is Some { let k = c.constraint->Some_0.id;
                lemma_c_id_set_mem(self.constraints@, self.constraints.len() as int, k); lemma_rc_id_set_mem(self.removed_constraints@, it_2.index@ as int, k); } }''')])


def p_validate():
    return Unit('ParametricInstance::validate', P, 'validate', impl=PI, wrap=PW, sig='pub fn validate(&self) -> Result<()>',
                header='''pub fn validate(&self) -> (r: Result<(), VErr>)
        ensures r is Ok <==> (joint_ids_distinct(self.decision_variables@, self.parameters@) && c_ids_distinct(self.constraints@, self.removed_constraints@)
            && pinst_used(*self).subset_of(dv_ids(self.decision_variables@, self.decision_variables.len() as int).union(p_ids(self.parameters@, self.parameters.len() as int)))),''')
