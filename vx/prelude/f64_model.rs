
// ===== prelude/f64_model.rs : assumption A1 (ideal arithmetic on the extended reals) =====
pub enum XR { NaN, NegInf, PosInf, Fin(real) }

#[verifier::external_body]
#[derive(Clone, Copy, Debug)]
pub struct F64 { v: f64 }
impl View for F64 { type V = XR; uninterp spec fn view(&self) -> XR; }

pub open spec fn xr_le(a: XR, b: XR) -> bool {
    match (a, b) {
        (XR::NaN, _) => false, (_, XR::NaN) => false,
        (XR::NegInf, _) => true, (_, XR::PosInf) => true,
        (XR::Fin(x), XR::Fin(y)) => x <= y,
        _ => false,
    }
}
pub open spec fn xr_lt(a: XR, b: XR) -> bool { xr_le(a, b) && a != b }
pub open spec fn sgn(x: real) -> int { if x > 0real { 1 } else if x < 0real { -1 } else { 0 } }
pub open spec fn xr_sign(a: XR) -> int {
    match a { XR::NaN => 0, XR::NegInf => -1, XR::PosInf => 1, XR::Fin(x) => sgn(x) }
}
pub open spec fn xr_mul(a: XR, b: XR) -> XR {
    match (a, b) {
        (XR::NaN, _) => XR::NaN, (_, XR::NaN) => XR::NaN,
        (XR::Fin(x), XR::Fin(y)) => XR::Fin(x * y),
        _ => {
            let s = xr_sign(a) * xr_sign(b);
            if s == 0 { XR::NaN } else if s > 0 { XR::PosInf } else { XR::NegInf }
        }
    }
}
// f64::min / f64::max: a NaN argument is ignored
pub open spec fn xr_min(a: XR, b: XR) -> XR {
    if a is NaN { b } else if b is NaN { a } else if xr_le(a, b) { a } else { b }
}
pub open spec fn xr_max(a: XR, b: XR) -> XR {
    if a is NaN { b } else if b is NaN { a } else if xr_le(a, b) { b } else { a }
}
pub open spec fn xr_add(a: XR, b: XR) -> XR {
    match (a, b) {
        (XR::NaN, _) => XR::NaN, (_, XR::NaN) => XR::NaN,
        (XR::NegInf, XR::PosInf) => XR::NaN, (XR::PosInf, XR::NegInf) => XR::NaN,
        (XR::NegInf, _) => XR::NegInf, (_, XR::NegInf) => XR::NegInf,
        (XR::PosInf, _) => XR::PosInf, (_, XR::PosInf) => XR::PosInf,
        (XR::Fin(x), XR::Fin(y)) => XR::Fin(x + y),
    }
}
pub open spec fn xr_neg(a: XR) -> XR { match a { XR::NaN => XR::NaN, XR::NegInf => XR::PosInf, XR::PosInf => XR::NegInf, XR::Fin(x) => XR::Fin(-x) } }
pub open spec fn xr_sub(a: XR, b: XR) -> XR { xr_add(a, xr_neg(b)) }
pub open spec fn rabs(x: real) -> real { if x < 0real { -x } else { x } }
pub open spec fn xr_abs(a: XR) -> XR { match a { XR::NaN => XR::NaN, XR::NegInf => XR::PosInf, XR::PosInf => XR::PosInf, XR::Fin(x) => XR::Fin(rabs(x)) } }
// division: finite/finite-nonzero exact; x/0 = +-inf by sign (the sign of zero is not modelled: 0 counts as +0), 0/0 = NaN,
// finite/inf = 0, inf/inf = NaN, inf/finite = inf with sign
pub open spec fn xr_div(a: XR, b: XR) -> XR {
    match (a, b) {
        (XR::NaN, _) => XR::NaN, (_, XR::NaN) => XR::NaN,
        (XR::Fin(x), XR::Fin(y)) => if y != 0real { XR::Fin(x / y) } else if x == 0real { XR::NaN } else if x > 0real { XR::PosInf } else { XR::NegInf },
        (XR::Fin(x), _) => XR::Fin(0real),
        (_, XR::Fin(y)) => { let s = xr_sign(a) * (if y >= 0real { 1int } else { -1int }); if s > 0 { XR::PosInf } else { XR::NegInf } },
        _ => XR::NaN,
    }
}
pub open spec fn rpow(x: real, n: nat) -> real decreases n { if n == 0 { 1real } else { rpow(x, (n - 1) as nat) * x } }
pub open spec fn xr_powi(a: XR, n: int) -> XR {
    if n == 0 { XR::Fin(1real) } else {
    match a {
        XR::NaN => XR::NaN,
        XR::PosInf => XR::PosInf,
        XR::NegInf => if n % 2 == 0 { XR::PosInf } else { XR::NegInf },
        XR::Fin(x) => XR::Fin(rpow(x, n as nat)),
    } }
}
// floor / ceil on reals through an integrality predicate (the only axioms of the prelude)
pub uninterp spec fn is_intr(x: real) -> bool;
pub uninterp spec fn rfloor(x: real) -> real;
pub uninterp spec fn rceil(x: real) -> real;
pub axiom fn ax_floor(x: real) ensures is_intr(rfloor(x)), rfloor(x) <= x, x < rfloor(x) + 1real;
pub axiom fn ax_ceil(x: real) ensures is_intr(rceil(x)), rceil(x) - 1real < x, x <= rceil(x);
pub axiom fn ax_discrete(a: real, b: real) requires is_intr(a), is_intr(b), a < b + 1real ensures a <= b;
pub open spec fn xr_floor(a: XR) -> XR { match a { XR::Fin(x) => XR::Fin(rfloor(x)), o => o } }
pub open spec fn xr_ceil(a: XR) -> XR { match a { XR::Fin(x) => XR::Fin(rceil(x)), o => o } }

impl PartialEq for F64 {
    #[verifier::external_body]
    fn eq(&self, other: &F64) -> (r: bool)
        ensures r == (self@ == other@ && !(self@ is NaN))
    { self.v == other.v }
}
impl PartialOrd for F64 {
    #[verifier::external_body]
    fn partial_cmp(&self, other: &F64) -> (r: Option<core::cmp::Ordering>) { self.v.partial_cmp(&other.v) }
    #[verifier::external_body]
    fn le(&self, other: &F64) -> (r: bool) ensures r == xr_le(self@, other@) { self.v <= other.v }
    #[verifier::external_body]
    fn lt(&self, other: &F64) -> (r: bool) ensures r == xr_lt(self@, other@) { self.v < other.v }
    #[verifier::external_body]
    fn ge(&self, other: &F64) -> (r: bool) ensures r == xr_le(other@, self@) { self.v >= other.v }
    #[verifier::external_body]
    fn gt(&self, other: &F64) -> (r: bool) ensures r == xr_lt(other@, self@) { self.v > other.v }
}
impl F64 {
    #[verifier::external_body]
    pub fn min(self, o: F64) -> (r: F64) ensures r@ == xr_min(self@, o@) { F64 { v: self.v.min(o.v) } }
    #[verifier::external_body]
    pub fn max(self, o: F64) -> (r: F64) ensures r@ == xr_max(self@, o@) { F64 { v: self.v.max(o.v) } }
    #[verifier::external_body]
    pub fn is_nan(self) -> (r: bool) ensures r == (self@ is NaN) { self.v.is_nan() }
    #[verifier::external_body]
    pub fn is_finite(self) -> (r: bool) ensures r == (self@ is Fin) { self.v.is_finite() }
    #[verifier::external_body]
    pub fn is_infinite(self) -> (r: bool) ensures r == (self@ is PosInf || self@ is NegInf) { self.v.is_infinite() }
    #[verifier::external_body]
    pub fn abs(self) -> (r: F64) ensures r@ == xr_abs(self@) { F64 { v: self.v.abs() } }
    #[verifier::external_body]
    pub fn powi(self, n: i32) -> (r: F64) requires n >= 0 ensures r@ == xr_powi(self@, n as int) { F64 { v: self.v.powi(n) } }
    #[verifier::external_body]
    pub fn ceil(self) -> (r: F64) ensures r@ == xr_ceil(self@) { F64 { v: self.v.ceil() } }
    #[verifier::external_body]
    pub fn floor(self) -> (r: F64) ensures r@ == xr_floor(self@) { F64 { v: self.v.floor() } }
}
impl F64 {
    // num::Zero for f64 (is_zero: == 0.0, true for +0 and -0)
    #[verifier::external_body]
    pub fn is_zero(&self) -> (r: bool) ensures r == (self@ == XR::Fin(0real)) { self.v == 0.0 }
}
impl Default for F64 { #[verifier::external_body] fn default() -> (r: F64) ensures r@ == XR::Fin(0real) { F64 { v: 0.0 } } }
#[verifier::external_body]
pub fn f64_infinity() -> (r: F64) ensures r@ == XR::PosInf { F64 { v: f64::INFINITY } }
#[verifier::external_body]
pub fn f64_neg_infinity() -> (r: F64) ensures r@ == XR::NegInf { F64 { v: f64::NEG_INFINITY } }
#[verifier::external_body]
pub fn f64_nan() -> (r: F64) ensures r@ == XR::NaN { F64 { v: f64::NAN } }
// f64::EPSILON = 2^-52 exactly
pub open spec fn eps_real() -> real { 1real / 4503599627370496real }
#[verifier::external_body]
pub fn f64_epsilon() -> (r: F64) ensures r@ == XR::Fin(eps_real()) { F64 { v: f64::EPSILON } }
impl AddSpecImpl<F64> for F64 { open spec fn obeys_add_spec() -> bool { false } open spec fn add_req(self, rhs: F64) -> bool { true } open spec fn add_spec(self, rhs: F64) -> F64 { arbitrary() } }
impl core::ops::Add<F64> for F64 { type Output = F64; #[verifier::external_body] fn add(self, rhs: F64) -> (r: F64) ensures r@ == xr_add(self@, rhs@) { F64 { v: self.v + rhs.v } } }
impl<'a, 'b> AddSpecImpl<&'b F64> for &'a F64 { open spec fn obeys_add_spec() -> bool { false } open spec fn add_req(self, rhs: &'b F64) -> bool { true } open spec fn add_spec(self, rhs: &'b F64) -> F64 { arbitrary() } }
impl<'a, 'b> core::ops::Add<&'b F64> for &'a F64 { type Output = F64; #[verifier::external_body] fn add(self, rhs: &'b F64) -> (r: F64) ensures r@ == xr_add(self@, rhs@) { F64 { v: self.v + rhs.v } } }
impl<'b> AddSpecImpl<&'b F64> for F64 { open spec fn obeys_add_spec() -> bool { false } open spec fn add_req(self, rhs: &'b F64) -> bool { true } open spec fn add_spec(self, rhs: &'b F64) -> F64 { arbitrary() } }
impl<'b> core::ops::Add<&'b F64> for F64 { type Output = F64; #[verifier::external_body] fn add(self, rhs: &'b F64) -> (r: F64) ensures r@ == xr_add(self@, rhs@) { F64 { v: self.v + rhs.v } } }
impl<'a> AddSpecImpl<F64> for &'a F64 { open spec fn obeys_add_spec() -> bool { false } open spec fn add_req(self, rhs: F64) -> bool { true } open spec fn add_spec(self, rhs: F64) -> F64 { arbitrary() } }
impl<'a> core::ops::Add<F64> for &'a F64 { type Output = F64; #[verifier::external_body] fn add(self, rhs: F64) -> (r: F64) ensures r@ == xr_add(self@, rhs@) { F64 { v: self.v + rhs.v } } }
impl SubSpecImpl<F64> for F64 { open spec fn obeys_sub_spec() -> bool { false } open spec fn sub_req(self, rhs: F64) -> bool { true } open spec fn sub_spec(self, rhs: F64) -> F64 { arbitrary() } }
impl core::ops::Sub<F64> for F64 { type Output = F64; #[verifier::external_body] fn sub(self, rhs: F64) -> (r: F64) ensures r@ == xr_sub(self@, rhs@) { F64 { v: self.v - rhs.v } } }
impl<'a, 'b> SubSpecImpl<&'b F64> for &'a F64 { open spec fn obeys_sub_spec() -> bool { false } open spec fn sub_req(self, rhs: &'b F64) -> bool { true } open spec fn sub_spec(self, rhs: &'b F64) -> F64 { arbitrary() } }
impl<'a, 'b> core::ops::Sub<&'b F64> for &'a F64 { type Output = F64; #[verifier::external_body] fn sub(self, rhs: &'b F64) -> (r: F64) ensures r@ == xr_sub(self@, rhs@) { F64 { v: self.v - rhs.v } } }
impl<'b> SubSpecImpl<&'b F64> for F64 { open spec fn obeys_sub_spec() -> bool { false } open spec fn sub_req(self, rhs: &'b F64) -> bool { true } open spec fn sub_spec(self, rhs: &'b F64) -> F64 { arbitrary() } }
impl<'b> core::ops::Sub<&'b F64> for F64 { type Output = F64; #[verifier::external_body] fn sub(self, rhs: &'b F64) -> (r: F64) ensures r@ == xr_sub(self@, rhs@) { F64 { v: self.v - rhs.v } } }
impl<'a> SubSpecImpl<F64> for &'a F64 { open spec fn obeys_sub_spec() -> bool { false } open spec fn sub_req(self, rhs: F64) -> bool { true } open spec fn sub_spec(self, rhs: F64) -> F64 { arbitrary() } }
impl<'a> core::ops::Sub<F64> for &'a F64 { type Output = F64; #[verifier::external_body] fn sub(self, rhs: F64) -> (r: F64) ensures r@ == xr_sub(self@, rhs@) { F64 { v: self.v - rhs.v } } }
impl MulSpecImpl<F64> for F64 { open spec fn obeys_mul_spec() -> bool { false } open spec fn mul_req(self, rhs: F64) -> bool { true } open spec fn mul_spec(self, rhs: F64) -> F64 { arbitrary() } }
impl core::ops::Mul<F64> for F64 { type Output = F64; #[verifier::external_body] fn mul(self, rhs: F64) -> (r: F64) ensures r@ == xr_mul(self@, rhs@) { F64 { v: self.v * rhs.v } } }
impl<'a, 'b> MulSpecImpl<&'b F64> for &'a F64 { open spec fn obeys_mul_spec() -> bool { false } open spec fn mul_req(self, rhs: &'b F64) -> bool { true } open spec fn mul_spec(self, rhs: &'b F64) -> F64 { arbitrary() } }
impl<'a, 'b> core::ops::Mul<&'b F64> for &'a F64 { type Output = F64; #[verifier::external_body] fn mul(self, rhs: &'b F64) -> (r: F64) ensures r@ == xr_mul(self@, rhs@) { F64 { v: self.v * rhs.v } } }
impl<'b> MulSpecImpl<&'b F64> for F64 { open spec fn obeys_mul_spec() -> bool { false } open spec fn mul_req(self, rhs: &'b F64) -> bool { true } open spec fn mul_spec(self, rhs: &'b F64) -> F64 { arbitrary() } }
impl<'b> core::ops::Mul<&'b F64> for F64 { type Output = F64; #[verifier::external_body] fn mul(self, rhs: &'b F64) -> (r: F64) ensures r@ == xr_mul(self@, rhs@) { F64 { v: self.v * rhs.v } } }
impl<'a> MulSpecImpl<F64> for &'a F64 { open spec fn obeys_mul_spec() -> bool { false } open spec fn mul_req(self, rhs: F64) -> bool { true } open spec fn mul_spec(self, rhs: F64) -> F64 { arbitrary() } }
impl<'a> core::ops::Mul<F64> for &'a F64 { type Output = F64; #[verifier::external_body] fn mul(self, rhs: F64) -> (r: F64) ensures r@ == xr_mul(self@, rhs@) { F64 { v: self.v * rhs.v } } }
impl DivSpecImpl<F64> for F64 { open spec fn obeys_div_spec() -> bool { false } open spec fn div_req(self, rhs: F64) -> bool { true } open spec fn div_spec(self, rhs: F64) -> F64 { arbitrary() } }
impl core::ops::Div<F64> for F64 { type Output = F64; #[verifier::external_body] fn div(self, rhs: F64) -> (r: F64) ensures r@ == xr_div(self@, rhs@) { F64 { v: self.v / rhs.v } } }
impl<'a, 'b> DivSpecImpl<&'b F64> for &'a F64 { open spec fn obeys_div_spec() -> bool { false } open spec fn div_req(self, rhs: &'b F64) -> bool { true } open spec fn div_spec(self, rhs: &'b F64) -> F64 { arbitrary() } }
impl<'a, 'b> core::ops::Div<&'b F64> for &'a F64 { type Output = F64; #[verifier::external_body] fn div(self, rhs: &'b F64) -> (r: F64) ensures r@ == xr_div(self@, rhs@) { F64 { v: self.v / rhs.v } } }
impl<'b> DivSpecImpl<&'b F64> for F64 { open spec fn obeys_div_spec() -> bool { false } open spec fn div_req(self, rhs: &'b F64) -> bool { true } open spec fn div_spec(self, rhs: &'b F64) -> F64 { arbitrary() } }
impl<'b> core::ops::Div<&'b F64> for F64 { type Output = F64; #[verifier::external_body] fn div(self, rhs: &'b F64) -> (r: F64) ensures r@ == xr_div(self@, rhs@) { F64 { v: self.v / rhs.v } } }
impl<'a> DivSpecImpl<F64> for &'a F64 { open spec fn obeys_div_spec() -> bool { false } open spec fn div_req(self, rhs: F64) -> bool { true } open spec fn div_spec(self, rhs: F64) -> F64 { arbitrary() } }
impl<'a> core::ops::Div<F64> for &'a F64 { type Output = F64; #[verifier::external_body] fn div(self, rhs: F64) -> (r: F64) ensures r@ == xr_div(self@, rhs@) { F64 { v: self.v / rhs.v } } }
impl NegSpecImpl for F64 { open spec fn obeys_neg_spec() -> bool { false } open spec fn neg_req(self) -> bool { true } open spec fn neg_spec(self) -> F64 { arbitrary() } }
impl core::ops::Neg for F64 { type Output = F64; #[verifier::external_body] fn neg(self) -> (r: F64) ensures r@ == xr_neg(self@) { F64 { v: -self.v } } }
impl<'a> NegSpecImpl for &'a F64 { open spec fn obeys_neg_spec() -> bool { false } open spec fn neg_req(self) -> bool { true } open spec fn neg_spec(self) -> F64 { arbitrary() } }
impl<'a> core::ops::Neg for &'a F64 { type Output = F64; #[verifier::external_body] fn neg(self) -> (r: F64) ensures r@ == xr_neg(self@) { F64 { v: -self.v } } }
impl AddAssignSpecImpl<F64> for F64 { open spec fn obeys_add_assign_spec() -> bool { false } open spec fn add_assign_req(&self, rhs: F64) -> bool { true } open spec fn add_assign_spec(&self, rhs: F64) -> &F64 { arbitrary() } }
impl core::ops::AddAssign<F64> for F64 { #[verifier::external_body] fn add_assign(&mut self, rhs: F64) ensures final(self)@ == xr_add(old(self)@, rhs@) { self.v += rhs.v } }
impl<'b> AddAssignSpecImpl<&'b F64> for F64 { open spec fn obeys_add_assign_spec() -> bool { false } open spec fn add_assign_req(&self, rhs: &'b F64) -> bool { true } open spec fn add_assign_spec(&self, rhs: &'b F64) -> &F64 { arbitrary() } }
impl<'b> core::ops::AddAssign<&'b F64> for F64 { #[verifier::external_body] fn add_assign(&mut self, rhs: &'b F64) ensures final(self)@ == xr_add(old(self)@, rhs@) { self.v += rhs.v } }
impl SubAssignSpecImpl<F64> for F64 { open spec fn obeys_sub_assign_spec() -> bool { false } open spec fn sub_assign_req(&self, rhs: F64) -> bool { true } open spec fn sub_assign_spec(&self, rhs: F64) -> &F64 { arbitrary() } }
impl core::ops::SubAssign<F64> for F64 { #[verifier::external_body] fn sub_assign(&mut self, rhs: F64) ensures final(self)@ == xr_sub(old(self)@, rhs@) { self.v -= rhs.v } }
impl<'b> SubAssignSpecImpl<&'b F64> for F64 { open spec fn obeys_sub_assign_spec() -> bool { false } open spec fn sub_assign_req(&self, rhs: &'b F64) -> bool { true } open spec fn sub_assign_spec(&self, rhs: &'b F64) -> &F64 { arbitrary() } }
impl<'b> core::ops::SubAssign<&'b F64> for F64 { #[verifier::external_body] fn sub_assign(&mut self, rhs: &'b F64) ensures final(self)@ == xr_sub(old(self)@, rhs@) { self.v -= rhs.v } }
impl MulAssignSpecImpl<F64> for F64 { open spec fn obeys_mul_assign_spec() -> bool { false } open spec fn mul_assign_req(&self, rhs: F64) -> bool { true } open spec fn mul_assign_spec(&self, rhs: F64) -> &F64 { arbitrary() } }
impl core::ops::MulAssign<F64> for F64 { #[verifier::external_body] fn mul_assign(&mut self, rhs: F64) ensures final(self)@ == xr_mul(old(self)@, rhs@) { self.v *= rhs.v } }
impl<'b> MulAssignSpecImpl<&'b F64> for F64 { open spec fn obeys_mul_assign_spec() -> bool { false } open spec fn mul_assign_req(&self, rhs: &'b F64) -> bool { true } open spec fn mul_assign_spec(&self, rhs: &'b F64) -> &F64 { arbitrary() } }
impl<'b> core::ops::MulAssign<&'b F64> for F64 { #[verifier::external_body] fn mul_assign(&mut self, rhs: &'b F64) ensures final(self)@ == xr_mul(old(self)@, rhs@) { self.v *= rhs.v } }
impl DivAssignSpecImpl<F64> for F64 { open spec fn obeys_div_assign_spec() -> bool { false } open spec fn div_assign_req(&self, rhs: F64) -> bool { true } open spec fn div_assign_spec(&self, rhs: F64) -> &F64 { arbitrary() } }
impl core::ops::DivAssign<F64> for F64 { #[verifier::external_body] fn div_assign(&mut self, rhs: F64) ensures final(self)@ == xr_div(old(self)@, rhs@) { self.v /= rhs.v } }
impl<'b> DivAssignSpecImpl<&'b F64> for F64 { open spec fn obeys_div_assign_spec() -> bool { false } open spec fn div_assign_req(&self, rhs: &'b F64) -> bool { true } open spec fn div_assign_spec(&self, rhs: &'b F64) -> &F64 { arbitrary() } }
impl<'b> core::ops::DivAssign<&'b F64> for F64 { #[verifier::external_body] fn div_assign(&mut self, rhs: &'b F64) ensures final(self)@ == xr_div(old(self)@, rhs@) { self.v /= rhs.v } }
//@LITERALS@
impl F64 {
    // f64::total_cmp (IEEE totalOrder): on finite values it agrees with the strict order; equal reals may still be ordered (-0.0 < +0.0), so nothing is
    // claimed for them
    #[verifier::external_body]
    pub fn total_cmp(&self, other: &F64) -> (o: core::cmp::Ordering)
        ensures self@ is Fin && other@ is Fin ==> (self@->Fin_0 < other@->Fin_0 ==> o is Less) && (self@->Fin_0 > other@->Fin_0 ==> o is Greater)
    { self.v.total_cmp(&other.v) }
}
