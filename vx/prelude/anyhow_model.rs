// ===== prelude/anyhow_model.rs : error model (DESIGN 4.2) =====
pub struct VErr { pub tag: u64 }
impl VErr { pub fn new() -> VErr { VErr { tag: 0 } } }
pub trait VCtx<T> { fn vctx(self) -> Result<T, VErr>; }
impl<T> VCtx<T> for Option<T> {
    #[verifier::external_body]
    fn vctx(self) -> (r: Result<T, VErr>)
        ensures self is Some ==> r == Ok::<T, VErr>(self->Some_0), self is None ==> r is Err
    { match self { Some(x) => Ok(x), None => Err(VErr::new()) } }
}
impl<T, E> VCtx<T> for Result<T, E> {
    #[verifier::external_body]
    fn vctx(self) -> (r: Result<T, VErr>)
        ensures self is Ok ==> r == Ok::<T, VErr>(self->Ok_0), self is Err ==> r is Err
    { match self { Ok(x) => Ok(x), Err(_) => Err(VErr::new()) } }
}
