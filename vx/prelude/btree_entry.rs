// ===== prelude/btree_entry.rs : std contracts for the BTreeMap entry idiom (T4; trusted, taken from the std documentation) =====
// `let v: &mut V = map.entry(k).or_default();` / `.or_insert(d)`: a mutable reference to the stored value (inserted first if absent); the map after the borrow
// ends is the old map with the key bound to the final value of that reference (prophecy-style).
use std::collections::btree_map::Entry;
use core::alloc::Allocator;
#[verifier::external_type_specification]
#[verifier::external_body]
#[verifier::reject_recursive_types(K)]
#[verifier::reject_recursive_types(V)]
#[verifier::reject_recursive_types(A)]
pub struct ExEntry<'a, K: 'a, V: 'a, A: Allocator + Clone>(Entry<'a, K, V, A>);
pub uninterp spec fn entry_key<'a, K, V, A: Allocator + Clone>(e: Entry<'a, K, V, A>) -> K;
pub uninterp spec fn entry_old<'a, K, V, A: Allocator + Clone>(e: Entry<'a, K, V, A>) -> Map<K, V>;
pub uninterp spec fn entry_fin<'a, K, V, A: Allocator + Clone>(e: Entry<'a, K, V, A>) -> Map<K, V>;
pub uninterp spec fn default_of<V>() -> V;
pub broadcast axiom fn ax_default_f64() ensures (#[trigger] default_of::<F64>())@ == XR::Fin(0real);
pub assume_specification<'a, K: Ord, V, A: Allocator + Clone>[ BTreeMap::<K, V, A>::entry ](m: &'a mut BTreeMap<K, V, A>, key: K) -> (e: Entry<'a, K, V, A>)
    ensures entry_key(e) == key, entry_old(e) == old(m)@, entry_fin(e) == final(m)@;
pub assume_specification<'a, K: Ord, V: Default, A: Allocator + Clone>[ Entry::<'a, K, V, A>::or_default ](e: Entry<'a, K, V, A>) -> (r: &'a mut V)
    ensures
        entry_old(e).contains_key(entry_key(e)) ==> *r == entry_old(e)[entry_key(e)],
        !entry_old(e).contains_key(entry_key(e)) ==> *r == default_of::<V>(),
        entry_fin(e) == entry_old(e).insert(entry_key(e), *final(r));
pub assume_specification<'a, K: Ord, V, A: Allocator + Clone>[ Entry::<'a, K, V, A>::or_insert ](e: Entry<'a, K, V, A>, default: V) -> (r: &'a mut V)
    ensures
        entry_old(e).contains_key(entry_key(e)) ==> *r == entry_old(e)[entry_key(e)],
        !entry_old(e).contains_key(entry_key(e)) ==> *r == default,
        entry_fin(e) == entry_old(e).insert(entry_key(e), *final(r));
// a.iter().chain(b.iter()): the elements of a, then those of b
#[verifier::external_body]
pub fn chain_refs<'a, T>(a: &'a Vec<T>, b: &'a Vec<T>) -> (r: Vec<&'a T>)
    ensures r.len() == a.len() + b.len(),
        forall|i: int| 0 <= i < r.len() ==> *(#[trigger] r[i]) == (a@ + b@)[i],
{ a.iter().chain(b.iter()).collect() }
