// ===== prelude/btree_entry.rs : std contracts for the BTreeMap entry idiom (T4; trusted, taken from the std documentation) =====
// `let v: &mut V = map.entry(k).or_default();` / `.or_insert(d)`: a mutable reference to the stored value (inserted first if absent); the map after the borrow
// ends is the old map with the key bound to the final value of that reference (prophecy-style).
use std::collections::btree_map::Entry;
use core::alloc::Allocator;
#[verifier::external_type_specification]
#[verifier::external_body]
#[verifier::reject_recursive_types(K)]
#[verifier::reject_recursive_types(V)]
#[verifier::reject_recursive_types(A)]
pub struct ExEntry<'a, K: 'a, V: 'a, A: Allocator + Clone>(Entry<'a, K, V, A>);
pub uninterp spec fn entry_key<'a, K, V, A: Allocator + Clone>(e: Entry<'a, K, V, A>) -> K;
pub uninterp spec fn entry_old<'a, K, V, A: Allocator + Clone>(e: Entry<'a, K, V, A>) -> Map<K, V>;
pub uninterp spec fn entry_fin<'a, K, V, A: Allocator + Clone>(e: Entry<'a, K, V, A>) -> Map<K, V>;
pub uninterp spec fn default_of<V>() -> V;
pub broadcast axiom fn ax_default_f64() ensures (#[trigger] default_of::<F64>())@ == XR::Fin(0real);
pub assume_specification<'a, K: Ord, V, A: Allocator + Clone>[ BTreeMap::<K, V, A>::entry ](m: &'a mut BTreeMap<K, V, A>, key: K) -> (e: Entry<'a, K, V, A>)
    ensures entry_key(e) == key, entry_old(e) == old(m)@, entry_fin(e) == final(m)@;
pub assume_specification<'a, K: Ord, V: Default, A: Allocator + Clone>[ Entry::<'a, K, V, A>::or_default ](e: Entry<'a, K, V, A>) -> (r: &'a mut V)
    ensures
        entry_old(e).contains_key(entry_key(e)) ==> *r == entry_old(e)[entry_key(e)],
        !entry_old(e).contains_key(entry_key(e)) ==> *r == default_of::<V>(),
        entry_fin(e) == entry_old(e).insert(entry_key(e), *final(r));
pub assume_specification<'a, K: Ord, V, A: Allocator + Clone>[ Entry::<'a, K, V, A>::or_insert ](e: Entry<'a, K, V, A>, default: V) -> (r: &'a mut V)
    ensures
        entry_old(e).contains_key(entry_key(e)) ==> *r == entry_old(e)[entry_key(e)],
        !entry_old(e).contains_key(entry_key(e)) ==> *r == default,
        entry_fin(e) == entry_old(e).insert(entry_key(e), *final(r));
// a.iter().chain(b.iter()): the elements of a, then those of b
#[verifier::external_body]
pub fn chain_refs<'a, T>(a: &'a Vec<T>, b: &'a Vec<T>) -> (r: Vec<&'a T>)
    ensures r.len() == a.len() + b.len(),
        forall|i: int| 0 <= i < r.len() ==> *(#[trigger] r[i]) == (a@ + b@)[i],
{ a.iter().chain(b.iter()).collect() }
// pairs of u64 as BTreeMap keys (lexicographic Ord of tuples is a total order consistent with Eq)
pub broadcast axiom fn ax_pair_u64_cmp() ensures #[trigger] vstd::std_specs::btree::key_obeys_cmp_spec::<(u64, u64)>();
// a.iter().zip(b.iter()).zip(c.iter()): element-wise, shortest length
#[verifier::external_body]
pub fn zip_zip<'a, A, B, C>(a: &'a Vec<A>, b: &'a Vec<B>, c: &'a Vec<C>) -> (r: Vec<((&'a A, &'a B), &'a C)>)
    ensures r.len() == (if a.len() <= b.len() && a.len() <= c.len() { a.len() } else if b.len() <= c.len() { b.len() } else { c.len() }),
        forall|k: int| 0 <= k < r.len() ==> *(#[trigger] r[k]).0.0 == a[k] && *r[k].0.1 == b[k] && *r[k].1 == c[k]
{ a.iter().zip(b.iter()).zip(c.iter()).collect() }
// BTreeMap::into_iter() (also `for (k, v) in map`): the entries in ascending key order, each exactly once
#[verifier::external_body]
pub fn btree_into_vec2(m: BTreeMap<(u64, u64), F64>) -> (r: Vec<((u64, u64), F64)>)
    ensures r.len() == m@.len(),
        forall|i: int| 0 <= i < r.len() ==> m@.contains_key((#[trigger] r[i]).0) && m@[r[i].0] == r[i].1,
        forall|i: int, j: int| 0 <= i < j < r.len() ==> (#[trigger] r[i]).0 != (#[trigger] r[j]).0,
        forall|k: (u64, u64)| #[trigger] m@.contains_key(k) ==> exists|i: int| 0 <= i < r.len() && (#[trigger] r[i]).0 == k,
{ m.into_iter().collect() }
// iter.collect::<BTreeMap<_, _>>(): the pairs inserted one after the other
#[verifier::external_body]
pub fn btreemap_collect2(it: Vec<((u64, u64), F64)>) -> (r: BTreeMap<(u64, u64), F64>)
    ensures forall|i: int| 0 <= i < it.len() ==> r@.contains_key((#[trigger] it[i]).0),
        // every key comes from a pair, and holds the value of the LAST pair with that key
        forall|k: (u64, u64)| #[trigger] r@.contains_key(k) ==> exists|i: int| 0 <= i < it.len() && (#[trigger] it[i]).0 == k && it[i].1 == r@[k] && forall|j: int| i < j < it.len() ==> (#[trigger] it[j]).0 != k,
{ it.into_iter().collect() }
