// ===== prelude/vmap_model.rs : BTreeMap<Vec<u64>, f64> - a map whose keys are id lists compared BY CONTENT (T4; trusted, from the std documentation of BTreeMap / Ord for Vec) =====
// The dialect replaces the type `BTreeMap<Vec<u64>, f64>` by `VMap` (rule R28): the method names and call shapes of the source are kept (`new`, `entry(k).or_default()`,
// `remove(&k)`), the view is a map from the key's CONTENT (Seq<u64>) to the value - vstd's BTreeMap view is keyed by the Vec object, which cannot express that two
// equal id lists are the same key.
#[verifier::external_body]
pub struct VMap { m: BTreeMap<Vec<u64>, F64> }
impl View for VMap { type V = Map<Seq<u64>, F64>; uninterp spec fn view(&self) -> Map<Seq<u64>, F64>; }
#[verifier::external_body]
pub struct VEntry<'a> { e: std::collections::btree_map::Entry<'a, Vec<u64>, F64> }
pub uninterp spec fn ventry_key<'a>(e: VEntry<'a>) -> Seq<u64>;
pub uninterp spec fn ventry_old<'a>(e: VEntry<'a>) -> Map<Seq<u64>, F64>;
pub uninterp spec fn ventry_fin<'a>(e: VEntry<'a>) -> Map<Seq<u64>, F64>;
impl VMap {
    #[verifier::external_body]
    pub fn new() -> (r: VMap) ensures r@ == Map::<Seq<u64>, F64>::empty() { VMap { m: BTreeMap::new() } }
    // prophecy-style, as for BTreeMap::entry in prelude/btree_entry.rs: the map after the borrow ends is the old map with the key bound to the final value of the reference
    #[verifier::external_body]
    pub fn entry<'a>(&'a mut self, key: Vec<u64>) -> (e: VEntry<'a>)
        ensures ventry_key(e) == key@, ventry_old(e) == old(self)@, ventry_fin(e) == final(self)@
    { VEntry { e: self.m.entry(key) } }
    #[verifier::external_body]
    pub fn remove(&mut self, key: &Vec<u64>) -> (r: Option<F64>)
        ensures final(self)@ == old(self)@.remove(key@), r is Some <==> old(self)@.contains_key(key@)
    { self.m.remove(key) }
}
impl<'a> VEntry<'a> {
    #[verifier::external_body]
    pub fn or_default(self) -> (r: &'a mut F64)
        ensures
            ventry_old(self).contains_key(ventry_key(self)) ==> *r == ventry_old(self)[ventry_key(self)],
            !ventry_old(self).contains_key(ventry_key(self)) ==> *r == default_of::<F64>(),
            ventry_fin(self) == ventry_old(self).insert(ventry_key(self), *final(r)),
    { self.e.or_default() }
}
