// ===== prelude/std_helpers.rs : assumed contracts on std / itertools (T4) =====
#[verifier::external_body]
pub fn btreeset_append(a: &mut BTreeSet<u64>, b: &mut BTreeSet<u64>)
    ensures final(a)@ == old(a)@.union(old(b)@), final(b)@ == Set::<u64>::empty()
{ a.append(b) }
#[verifier::external_body]
pub fn btreeset_extend(a: &mut BTreeSet<u64>, b: BTreeSet<u64>)
    ensures final(a)@ == old(a)@.union(b@)
{ a.extend(b) }
#[verifier::external_body]
pub fn btreeset_to_vec(a: &BTreeSet<u64>) -> (r: Vec<u64>)
    ensures r@.to_set() == a@, r@.no_duplicates(), forall|i: int, j: int| 0 <= i < j < r.len() ==> r[i] < r[j]
{ a.iter().cloned().collect() }
// itertools::multizip((a.iter(), b.iter(), c.iter())): element-wise, shortest length
#[verifier::external_body]
pub fn zip3<A: Copy, B: Copy, C: Copy>(a: &Vec<A>, b: &Vec<B>, c: &Vec<C>) -> (r: Vec<(A, B, C)>)
    ensures r.len() == (if a.len() <= b.len() && a.len() <= c.len() { a.len() } else if b.len() <= c.len() { b.len() } else { c.len() }),
        forall|k: int| 0 <= k < r.len() ==> (#[trigger] r[k]).0 == a[k] && r[k].1 == b[k] && r[k].2 == c[k]
{ a.iter().zip(b.iter()).zip(c.iter()).map(|((x, y), z)| (*x, *y, *z)).collect() }
// HashMap::iter(): SOME enumeration of the entries, each exactly once (the order is universally quantified)
#[verifier::external_body]
pub fn hashmap_iter_collect<'a, K, V>(m: &'a HashMap<K, V>) -> (r: Vec<(&'a K, &'a V)>)
    ensures
        forall|j: int| 0 <= j < r.len() ==> m@.contains_key(*(#[trigger] r[j]).0) && m@[*r[j].0] == *r[j].1,
        forall|k: K| m@.contains_key(k) ==> exists|j: int| 0 <= j < r.len() && *(#[trigger] r[j]).0 == k,
        forall|i: int, j: int| 0 <= i < j < r.len() ==> *(#[trigger] r[i]).0 != *(#[trigger] r[j]).0,
{ m.iter().collect() }
// T4: Clone returns a value equal to the original (derived Clone on messages, std Clone on String/Vec/Option/HashMap)
pub trait VClone: Sized { fn vclone(&self) -> Self; }
impl<T: Clone> VClone for T {
    #[verifier::external_body]
    fn vclone(&self) -> (r: T) ensures r == *self { self.clone() }
}
// R12 helpers: the std documentation stated over the closure's own ensures
#[verifier::external_body]
pub fn iter_position<T, F: Fn(&T) -> bool>(v: &Vec<T>, f: F) -> (r: Option<usize>)
    requires forall|i: int| 0 <= i < v.len() ==> f.requires((&#[trigger] v[i],))
    ensures match r {
        Some(i) => i < v.len() && f.ensures((&v[i as int],), true)
            && forall|j: int| 0 <= j < i ==> f.ensures((&#[trigger] v[j],), false),
        None => forall|j: int| 0 <= j < v.len() ==> f.ensures((&#[trigger] v[j],), false),
    }
{ v.iter().position(f) }
#[verifier::external_body]
pub fn opt_is_some_and<T, F: FnOnce(&T) -> bool>(o: Option<&T>, f: F) -> (r: bool)
    requires o is Some ==> f.requires((o->Some_0,))
    ensures o is None ==> !r, o is Some ==> f.ensures((o->Some_0,), r)
{ o.is_some_and(f) }
#[verifier::external_body]
pub fn iter_find<'a, T, F: Fn(&&'a T) -> bool>(v: &'a Vec<T>, f: F) -> (r: Option<&'a T>)
    requires forall|i: int| 0 <= i < v.len() ==> f.requires((&&#[trigger] v[i],))
    ensures match r {
        Some(x) => exists|i: int| 0 <= i < v.len() && *x == v[i] && f.ensures((&&v[i],), true)
            && forall|j: int| 0 <= j < i ==> f.ensures((&&#[trigger] v[j],), false),
        None => forall|j: int| 0 <= j < v.len() ==> f.ensures((&&#[trigger] v[j],), false),
    }
{ v.iter().find(f) }
// BTreeSet::last(): the greatest element
#[verifier::external_body]
pub fn btreeset_last(s: &BTreeSet<u64>) -> (r: Option<&u64>)
    ensures r is None ==> s@.len() == 0 && forall|y: u64| !s@.contains(y),
            r is Some ==> s@.contains(*r->Some_0) && forall|y: u64| s@.contains(y) ==> y <= *r->Some_0,
{ s.last() }
// Option::map / unwrap_or with an annotated closure (R11)
#[verifier::external_body]
pub fn opt_map<T, U, F: FnOnce(T) -> U>(o: Option<T>, f: F) -> (r: Option<U>)
    requires o is Some ==> f.requires((o->Some_0,))
    ensures o is None ==> r is None, o is Some ==> r is Some && f.ensures((o->Some_0,), r->Some_0)
{ o.map(f) }
// A2: `x.log2().ceil() as usize` (libm log2 exact on powers of two; saturating float->int cast; finite doubles are below 2^1024)
#[verifier::external_body]
pub fn ceil_log2_usize(x: F64) -> (r: usize)
    ensures
        x@ is PosInf ==> r == usize::MAX,
        x@ is NaN || x@ is NegInf ==> r == 0,
        x@ is Fin && x@->Fin_0 <= 1real ==> r == 0,
        x@ is Fin && x@->Fin_0 > 1real ==> 1 <= r <= 1024 && rpow(2real, (r - 1) as nat) < x@->Fin_0 <= rpow(2real, r as nat),
{ x.v.log2().ceil() as usize }
// T4: <[T]>::contains (used on id lists)
pub assume_specification<T: core::cmp::PartialEq>[ <[T]>::contains ](s: &[T], x: &T) -> (r: bool)
    ensures r == s@.contains(*x);
// X.into_iter().enumerate() on a Vec (R18)
#[verifier::external_body]
pub fn enumerate_vec<T>(v: Vec<T>) -> (r: Vec<(usize, T)>)
    ensures r.len() == v.len(), forall|i: int| 0 <= i < r.len() ==> (#[trigger] r[i]).0 == i && r[i].1 == v[i]
{ v.into_iter().enumerate().collect() }
// maplit::hashmap!{ k => v } with one entry; u64::to_string (string contents are not modelled beyond this)
#[verifier::external_body] pub fn hashmap1(k: String, v: String) -> (r: HashMap<String, String>) { let mut m = HashMap::new(); m.insert(k, v); m }
#[verifier::external_body] pub fn u64_to_string(x: u64) -> String { x.to_string() }
// X.iter().map(C).collect::<BTreeSet<u64>>() on a Vec (R18): the set of the closure's results
#[verifier::external_body]
pub fn iter_map_collect_set<T, F: Fn(&T) -> u64>(v: &Vec<T>, f: F) -> (r: BTreeSet<u64>)
    requires forall|i: int| 0 <= i < v.len() ==> f.requires((&#[trigger] v[i],))
    ensures forall|k: u64| #[trigger] r@.contains(k) ==> exists|i: int| 0 <= i < v.len() && f.ensures((&#[trigger] v[i],), k),
            forall|i: int| #![trigger v[i]] 0 <= i < v.len() ==> exists|k: u64| #![trigger r@.contains(k)] f.ensures((&v[i],), k) && r@.contains(k),
{ v.iter().map(f).collect() }
// map.keys().cloned().collect::<BTreeSet<u64>>()
#[verifier::external_body]
pub fn hashmap_keys_set<V>(m: &HashMap<u64, V>) -> (r: BTreeSet<u64>)
    ensures forall|k: u64| #[trigger] r@.contains(k) <==> m@.contains_key(k)
{ m.keys().cloned().collect() }
#[verifier::external_body]
pub fn btreeset_is_subset(a: &BTreeSet<u64>, b: &BTreeSet<u64>) -> (r: bool)
    ensures r == a@.subset_of(b@)
{ a.is_subset(b) }
// X.iter_mut().find(C): first element satisfying C, as a mutable reference into the vector (prophecy-style contract)
#[verifier::external_body]
pub fn iter_mut_find<'a, T, F: Fn(&T) -> bool>(v: &'a mut Vec<T>, f: F) -> (r: Option<&'a mut T>)
    requires forall|i: int| 0 <= i < old(v).len() ==> f.requires((&#[trigger] old(v)[i],))
    ensures
        final(v).len() == old(v).len(),
        r is None ==> *final(v) == *old(v) && forall|j: int| 0 <= j < old(v).len() ==> f.ensures((&#[trigger] old(v)[j],), false),
        r is Some ==> exists|i: int| #![trigger old(v)[i]] 0 <= i < old(v).len() && *r->Some_0 == old(v)[i] && final(v)@ == old(v)@.update(i, *final(r->Some_0))
            && f.ensures((&old(v)[i],), true) && forall|j: int| 0 <= j < i ==> f.ensures((&#[trigger] old(v)[j],), false),
{ v.iter_mut().find(|x| f(&**x)) }
// `x as f64` for u64 (exact below 2^53; A1)
#[verifier::external_body]
pub fn u64_as_f64(x: u64) -> (r: F64) ensures r@ == XR::Fin(x as real) { F64 { v: x as f64 } }
// X.into_iter().map(C).collect::<Result<Vec<_>, E>>() (R18): all results in order, or the first error
#[verifier::external_body]
pub fn try_map_collect<T, U, E, F: Fn(T) -> Result<U, E>>(v: Vec<T>, f: F) -> (r: Result<Vec<U>, E>)
    requires forall|i: int| 0 <= i < v.len() ==> f.requires((#[trigger] v[i],))
    ensures
        r is Ok ==> r->Ok_0.len() == v.len() && forall|i: int| 0 <= i < v.len() ==> f.ensures((#[trigger] v[i],), Ok::<U, E>(r->Ok_0[i])),
        r is Err ==> exists|i: int| 0 <= i < v.len() && f.ensures((#[trigger] v[i],), Err::<U, E>(r->Err_0))
            && forall|j: int| 0 <= j < i ==> exists|u: U| f.ensures((#[trigger] v[j],), Ok::<U, E>(u)),
{ v.into_iter().map(f).collect() }
// HashMap::into_iter(): each entry exactly once in SOME order
#[verifier::external_body]
pub fn hashmap_into_vec<V>(m: HashMap<u64, V>) -> (r: Vec<(u64, V)>)
    ensures
        forall|j: int| 0 <= j < r.len() ==> m@.contains_key((#[trigger] r[j]).0) && m@[r[j].0] == r[j].1,
        forall|k: u64| m@.contains_key(k) ==> exists|j: int| 0 <= j < r.len() && (#[trigger] r[j]).0 == k,
        forall|i: int, j: int| 0 <= i < j < r.len() ==> (#[trigger] r[i]).0 != (#[trigger] r[j]).0,
{ m.into_iter().collect() }
// BTreeMap::entry(k).and_modify(|v| *v += c).or_insert(c): accumulate c under key k; returns the stored value (T4; closures taking &mut are outside Verus)
#[verifier::external_body]
pub fn btreemap_add_or_insert<K: Ord + Clone>(m: &mut BTreeMap<K, F64>, k: K, c: F64) -> (r: F64)
    ensures final(m)@ == old(m)@.insert(k, r),
        old(m)@.contains_key(k) ==> r@ == xr_add(old(m)@[k]@, c@),
        !old(m)@.contains_key(k) ==> r == c,
{ let v = m.entry(k).and_modify(|v| v.v += c.v).or_insert(c); *v }
// BTreeMap::entry(k).or_insert(c) (without and_modify): c is stored only when the key is absent; returns the stored value (T4)
#[verifier::external_body]
pub fn btreemap_or_insert<K: Ord + Clone>(m: &mut BTreeMap<K, F64>, k: K, c: F64) -> (r: F64)
    ensures final(m)@ == old(m)@.insert(k, r),
        old(m)@.contains_key(k) ==> r == old(m)@[k],
        !old(m)@.contains_key(k) ==> r == c,
{ let v = m.entry(k).or_insert(c); *v }
#[verifier::external_body]
pub fn vec_to_btreeset(v: Vec<u64>) -> (r: BTreeSet<u64>) ensures r@ =~= v@.to_set() { v.into_iter().collect() }
// Option<&T>::copied()
#[verifier::external_body]
pub fn opt_copied<T: Copy>(o: Option<&T>) -> (r: Option<T>) ensures o is None ==> r is None, o is Some ==> r == Some(*o->Some_0) { o.copied() }
pub assume_specification<'a, T: Copy>[ Option::<&'a T>::copied ](o: Option<&'a T>) -> (r: Option<T>)
    ensures o is None ==> r is None, o is Some ==> r == Some(*o->Some_0);
// Iterator::min_by (R12): the fold of std keeps the current minimum m unless compare(m, x) is Greater.  For every transitive relation `leq` such that
// the comparator answers Greater whenever !leq(a, b), and only when leq(b, a), the result is a least element.
pub open spec fn transitive_on<T>(leq: spec_fn(T, T) -> bool, v: Seq<T>) -> bool {
    (forall|i: int| 0 <= i < v.len() ==> #[trigger] leq(v[i], v[i]))
    && (forall|i: int, j: int, k: int| 0 <= i < v.len() && 0 <= j < v.len() && 0 <= k < v.len() && #[trigger] leq(v[i], v[j]) && #[trigger] leq(v[j], v[k]) ==> leq(v[i], v[k]))
}
pub open spec fn cmp_refines<T, F: Fn(&T, &T) -> core::cmp::Ordering>(f: F, leq: spec_fn(T, T) -> bool, v: Seq<T>) -> bool {
    forall|i: int, j: int, o: core::cmp::Ordering| 0 <= i < v.len() && 0 <= j < v.len() && #[trigger] f.ensures((&v[i], &v[j]), o)
        ==> (!leq(v[i], v[j]) ==> o is Greater) && (o is Greater ==> leq(v[j], v[i]))
}
#[verifier::external_body]
pub fn iter_min_by<T, F: Fn(&T, &T) -> core::cmp::Ordering>(v: &Vec<T>, f: F) -> (r: Option<&T>)
    requires forall|i: int, j: int| 0 <= i < v.len() && 0 <= j < v.len() ==> f.requires((&#[trigger] v[i], &#[trigger] v[j]))
    ensures (r is None) == (v.len() == 0),
        r is Some ==> exists|i: int| 0 <= i < v.len() && *r->Some_0 == #[trigger] v[i]
            && forall|leq: spec_fn(T, T) -> bool| #![trigger transitive_on(leq, v@)] transitive_on(leq, v@) && cmp_refines(f, leq, v@) ==> forall|j: int| 0 <= j < v.len() ==> leq(v[i], #[trigger] v[j]),
{ v.iter().min_by(|a, b| f(a, b)) }
// map.iter().filter_map(C).collect::<BTreeSet<u64>>() (R12): exactly the Some-results of the closure over the entries
#[verifier::external_body]
pub fn hashmap_filter_map_set<V, F: Fn((&u64, &V)) -> Option<u64>>(m: &HashMap<u64, V>, f: F) -> (r: BTreeSet<u64>)
    requires forall|k: u64| m@.contains_key(k) ==> f.requires(((&k, &#[trigger] m@[k]),))
    ensures
        // every element of the result is the Some-output of the closure on an entry ...
        forall|u: u64| #[trigger] r@.contains(u) ==> exists|k: u64| m@.contains_key(k) && f.ensures(((&k, &#[trigger] m@[k]),), Some(u)),
        // ... and every entry was passed to the closure, its output (if Some) being collected
        forall|k: u64| #[trigger] m@.contains_key(k) ==> exists|o: Option<u64>| #[trigger] f.ensures(((&k, &m@[k]),), o) && (o is Some ==> r@.contains(o->Some_0)),
{ m.iter().filter_map(f).collect() }
// bool::then_some
pub fn bool_then_some(b: bool, v: u64) -> (r: Option<u64>) ensures r == (if b { Some(v) } else { None::<u64> }) { if b { Some(v) } else { None } }
// BTreeSet::into_iter() handed to a function that takes `impl Iterator` (R22: instantiated at Vec): the elements in ascending order
#[verifier::external_body]
pub fn btreeset_into_vec(a: BTreeSet<u64>) -> (r: Vec<u64>)
    ensures r@.to_set() == a@, r@.no_duplicates(), forall|i: int, j: int| 0 <= i < j < r.len() ==> r[i] < r[j]
{ a.into_iter().collect() }
// Vec/iterator `.map(C).collect::<Vec<_>>()` over an already collected sequence (R12): element-wise, in order
#[verifier::external_body]
pub fn vec_map_collect<T, U, F: Fn(T) -> U>(v: Vec<T>, f: F) -> (r: Vec<U>)
    requires forall|i: int| 0 <= i < v.len() ==> f.requires((#[trigger] v[i],))
    ensures r.len() == v.len(), forall|i: int| 0 <= i < v.len() ==> f.ensures((v[i],), #[trigger] r[i])
{ v.into_iter().map(f).collect() }
// `v.iter()` as a collected sequence of references (R12): element-wise, in order
#[verifier::external_body]
pub fn vec_refs<'a, T>(v: &'a Vec<T>) -> (r: Vec<&'a T>)
    ensures r.len() == v.len(), forall|i: int| 0 <= i < v.len() ==> *(#[trigger] r[i]) == v[i]
{ v.iter().collect() }
// ---- iterator pipelines instantiated at Vec (R31): chain / once / empty / filter / map over a range ----
// `a.chain(b)`: the items of a, then the items of b
#[verifier::external_body]
pub fn vec_chain<T>(a: Vec<T>, b: Vec<T>) -> (r: Vec<T>) ensures r@ == a@ + b@ { let mut a = a; a.extend(b); a }
// `std::iter::once(x)`: exactly x
#[verifier::external_body]
pub fn vec_once<T>(x: T) -> (r: Vec<T>) ensures r@ == seq![x] { vec![x] }
// `std::iter::empty()`
#[verifier::external_body]
pub fn vec_empty<T>() -> (r: Vec<T>) ensures r@ == Seq::<T>::empty() { Vec::new() }
// the subsequence of v selected by the flags b
pub open spec fn sel<T>(v: Seq<T>, b: Seq<bool>, n: int) -> Seq<T> decreases n {
    if n <= 0 { Seq::empty() } else if b[n - 1] { sel(v, b, n - 1).push(v[n - 1]) } else { sel(v, b, n - 1) }
}
pub proof fn lemma_sel_ext<T>(v: Seq<T>, a: Seq<bool>, b: Seq<bool>, n: int)
    requires 0 <= n <= a.len(), n <= b.len(), forall|i: int| 0 <= i < n ==> a[i] == b[i]
    ensures sel(v, a, n) == sel(v, b, n)
    decreases n
{ if n > 0 { lemma_sel_ext(v, a, b, n - 1); } }
// `.filter(C)`: the items on which the closure answered true, in order (the closure sees a reference to the item)
#[verifier::external_body]
pub fn vec_filter<T, F: Fn(&T) -> bool>(v: Vec<T>, f: F) -> (r: Vec<T>)
    requires forall|i: int| 0 <= i < v.len() ==> f.requires((&#[trigger] v[i],))
    ensures exists|b: Seq<bool>| b.len() == v.len() && (forall|i: int| 0 <= i < v.len() ==> f.ensures((&v[i],), #[trigger] b[i])) && r@ == sel(v@, b, v.len() as int)
{ v.into_iter().filter(f).collect() }
// `(lo..hi).map(C)`: the closure applied to lo, lo + 1, .., hi - 1 in order
#[verifier::external_body]
pub fn range_map_collect<U, F: Fn(usize) -> U>(lo: usize, hi: usize, f: F) -> (r: Vec<U>)
    requires forall|i: usize| lo <= i < hi ==> f.requires((i,))
    ensures r.len() == (if hi >= lo { hi - lo } else { 0 }), forall|i: int| 0 <= i < r.len() ==> f.ensures(((lo + i) as usize,), #[trigger] r[i])
{ (lo..hi).map(f).collect() }
// `Option::into_iter()` handed to a collector (R31): the value, if any
pub fn opt_into_vec(o: Option<u64>) -> (r: Vec<u64>) ensures r@ == (match o { Some(k) => seq![k], None => Seq::<u64>::empty() }) {
    match o { Some(k) => { let mut v = Vec::new(); v.push(k); v } None => Vec::new() }
}
// assert_eq!(a, b) in executable code: panics when the values differ, so the call carries the obligation that they are equal
pub fn vassert_eq(a: usize, b: usize) requires a == b {}
// `.cloned()` / `.copied()` over references (R31)
#[verifier::external_body]
pub fn vec_cloned<'a, T: Copy>(v: Vec<&'a T>) -> (r: Vec<T>) ensures r.len() == v.len(), forall|i: int| 0 <= i < v.len() ==> #[trigger] r[i] == *v[i] { v.into_iter().copied().collect() }
// concatenation of a list of lists
pub open spec fn flat<U>(outs: Seq<Seq<U>>, n: int) -> Seq<U> decreases n { if n <= 0 { Seq::empty() } else { flat(outs, n - 1) + outs[n - 1] } }
// `.flat_map(C)` (R31): the items yielded by the closure for each element, in order
#[verifier::external_body]
pub fn vec_flat_map<T, U, F: Fn(T) -> Vec<U>>(v: Vec<T>, f: F) -> (r: Vec<U>)
    requires forall|i: int| 0 <= i < v.len() ==> f.requires((#[trigger] v[i],))
    ensures exists|outs: Seq<Vec<U>>| outs.len() == v.len() && (forall|i: int| 0 <= i < v.len() ==> f.ensures((v[i],), #[trigger] outs[i])) && r@ == flat(Seq::new(outs.len(), |i: int| outs[i]@), v.len() as int)
{ v.into_iter().flat_map(f).collect() }
pub proof fn lemma_flat_mem<U>(outs: Seq<Seq<U>>, n: int, x: U)
    requires 0 <= n <= outs.len()
    ensures flat(outs, n).contains(x) <==> exists|i: int| 0 <= i < n && (#[trigger] outs[i]).contains(x)
    decreases n
{
    if n > 0 {
        lemma_flat_mem(outs, n - 1, x);
        let a = flat(outs, n - 1); let b = outs[n - 1];
        if (a + b).contains(x) { let j = choose|j: int| 0 <= j < (a + b).len() && (a + b)[j] == x; if j < a.len() { assert(a[j] == x); assert(a.contains(x)); } else { assert(b[j - a.len()] == x); assert(b.contains(x)); } }
        if a.contains(x) { let j = choose|j: int| 0 <= j < a.len() && a[j] == x; assert((a + b)[j] == x); }
        if b.contains(x) { let j = choose|j: int| 0 <= j < b.len() && b[j] == x; assert((a + b)[a.len() + j] == x); }
    }
}
// `opt.as_ref().map_or_else(BTreeSet::new, C)`: the closure's set for Some, the empty set for None
#[verifier::external_body]
pub fn opt_ref_map_or_new<T, F: Fn(&T) -> BTreeSet<u64>>(o: &Option<T>, f: F) -> (r: BTreeSet<u64>)
    requires o is Some ==> f.requires((&o->Some_0,))
    ensures o is Some ==> f.ensures((&o->Some_0,), r), o is None ==> r@ =~= Set::<u64>::empty()
{ o.as_ref().map_or_else(BTreeSet::new, f) }
// `.collect::<Vec<_>>()` at the end of a pipeline that is already a Vec (R31): the identity
pub fn vec_collect<T>(v: Vec<T>) -> (r: Vec<T>) ensures r == v { v }
// `(lo..hi).map(C)` over u64 (R31)
#[verifier::external_body]
pub fn range_map_collect_u64<U, F: Fn(u64) -> U>(lo: u64, hi: u64, f: F) -> (r: Vec<U>)
    requires forall|i: u64| lo <= i < hi ==> f.requires((i,))
    ensures r.len() == (if hi >= lo { hi - lo } else { 0 }), forall|i: int| 0 <= i < r.len() ==> f.ensures(((lo + i) as u64,), #[trigger] r[i])
{ (lo..hi).map(f).collect() }
// `Vec::retain(C)`: the items on which the closure answered true, in order
#[verifier::external_body]
pub fn vec_retain<T, F: Fn(&T) -> bool>(v: &mut Vec<T>, f: F)
    requires forall|i: int| 0 <= i < old(v).len() ==> f.requires((&#[trigger] old(v)[i],))
    ensures exists|b: Seq<bool>| b.len() == old(v).len() && (forall|i: int| 0 <= i < old(v).len() ==> f.ensures((&old(v)[i],), #[trigger] b[i])) && final(v)@ == sel(old(v)@, b, old(v).len() as int)
{ v.retain(f) }
// `v.last()` on a Vec / slice: the last element, if any
#[verifier::external_body]
pub fn vec_last<T>(v: &Vec<T>) -> (r: Option<&T>)
    ensures v.len() == 0 ==> r is None, v.len() > 0 ==> r is Some && *r->Some_0 == v[v.len() - 1]
{ v.last() }
