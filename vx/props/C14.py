"""C14 - Relaxing and restoring constraints only moves them."""
from vx import core, v1types
from vx.props import common
from vx.units import instance_ops as io


def build(asm, tier):
    asm.raw(common.HEADER)
    asm.raw('pub mod lib {\n' + common.LIB_USES)
    asm.file('prelude/f64_model.rs')
    asm.file('prelude/anyhow_model.rs')
    asm.file('prelude/std_helpers.rs')
    t, enums = v1types.v1_module(asm.rules)
    asm.extracted(t, 'ommx.v1.rs message types')
    asm.file('spec/constraint_multiset.rs')
    asm.raw('} // mod lib\npub mod units {\n' + common.UNITS_USES)
    asm.unit(io.relax_constraint())
    asm.unit(io.restore_constraint())
    asm.file('spec/c14_lemmas.rs')
    asm.raw('} // mod units\n')
    asm.guard(common.guard_fn('c14', '', uses='use super::lib::*;'), 'vacuity: prelude')
    asm.guard('''pub mod guard_c14b { use vstd::prelude::*; use super::lib::*;
proof fn vacuity_pre(i: v1::Instance, id: u64) requires rem_wf(i.removed_constraints@), ids_unique(i), i.constraints.len() > 1, i.removed_constraints.len() > 1,
    exists|k: int| 0 <= k < i.constraints.len() && (#[trigger] i.constraints[k]).id == id { assert(false); }
}
''', 'vacuity: lemma premises')
    asm.raw(common.FOOTER)
    return dict(
        composes_with={'C05': ['Instance::evaluate', 'Constraint::evaluate', 'RemovedConstraint::evaluate', 'EvaluatedConstraint::is_feasible']},
        min_items=6,
        trusted_base=common.TRUSTED_COMMON + common.T4_COLLECTIONS + [
            'T4: Iterator::position on a slice iterator = first index whose element satisfies the closure (helper iter_position, stated over the closure ensures)',
            'T4: Option::is_some_and (helper opt_is_some_and)',
            'R11: closure bodies are the source text, annotated with parameter/return types and an ensures that Verus proves for the body',
        ],
        assumptions=common.A1[2:] + ['Constraint values are compared as whole messages (id, function, equality, name, subscripts, parameters, description)'],
        not_covered=['the consequence for Solution flags is the composition with the C05 contract of Instance::evaluate (out_hold over active ++ removed); it is not restated as a separate Verus lemma'],
    )
