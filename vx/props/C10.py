"""C10 - Instantiating parameters equals evaluating them."""
from vx import core, v1types
from vx.props import common, C03
from vx.units.algebra import PMERGE_STUBS
from vx.units import evaluate as ev, parametric as pa


def build(asm, tier):
    asm.raw(common.HEADER)
    asm.raw('pub mod lib {\n' + common.LIB_USES)
    asm.file('prelude/f64_model.rs')
    asm.file('prelude/anyhow_model.rs')
    asm.file('prelude/std_helpers.rs')
    t, enums = v1types.v1_module(asm.rules)
    asm.extracted(t, 'ommx.v1.rs message types')
    asm.file('spec/poly_value.rs')
    asm.raw('''pub open spec fn ec_value_ok(f: v1::Function, st: Map<u64, F64>, v: F64) -> bool {
    (fn_fin(f) && state_fin(st) ==> v@ == XR::Fin(fn_val(f, st)))
    && (f.function is None ==> v@ == XR::Fin(0real))
    && (f.function is Some && f.function->Some_0 is Constant ==> v == f.function->Some_0->Constant_0)
}
''')
    asm.file('spec/dep_spec.rs')
    asm.file('prelude/btree_entry.rs')
    asm.file('spec/merge_spec.rs')
    asm.file('spec/kmerge_spec.rs')
    asm.file('prelude/vmap_model.rs')
    asm.file('spec/qpe_spec.rs')
    asm.file('spec/padd_spec.rs')
    asm.file('spec/ppe_spec.rs')
    asm.file('spec/pe_spec.rs')
    asm.raw('} // mod lib\npub mod units {\n' + common.UNITS_USES + 'broadcast use super::lib::lemma_swap_removed_sum, super::lib::lemma_swap_removed_ids, super::lib::ax_default_f64;\n')
    asm.raw(C03.STUBS + ev.QPE_HELPERS + ev.linear_new_stub() + PMERGE_STUBS, 'assumed callee contracts')
    asm.stubs.append(dict(unit='Linear::new', proved_in='C02 / C12 (same contract text: the header of the verified unit)'))
    for u in (ev.linear_partial_evaluate(), ev.quadratic_partial_evaluate(), ev.polynomial_partial_evaluate(), ev.function_partial_evaluate(), ev.constraint_partial_evaluate(),
              pa.state_from_parameters(), pa.parameters_from_state(), pa.parametric_from_instance(), pa.with_parameters()):
        asm.unit(u)
    asm.file('spec/c03_lemmas.rs')
    asm.raw('''// round trip: an instance turned into a parametric instance and instantiated with NO parameters is the same problem:
// every function is related to the original by pe(.., empty), i.e. equal value at every assignment (up to the explicit remainder)
proof fn lemma_round_trip(o: Function, n: Function, m: Map<u64, F64>)
    requires pe(o, n, Map::<u64, F64>::empty()), fn_fin(o)
    ensures fn_val(n, m) == fn_val(o, m) - fn_pe_rem(o, Map::<u64, F64>::empty(), m)
{
    assert(agree(Map::<u64, F64>::empty(), m));
    assert(state_fin(Map::<u64, F64>::empty()));
}
''', 'property lemma')
    asm.raw('} // mod units\n')
    asm.guard(common.guard_fn('c10', '', uses='use super::lib::*;'), 'vacuity: prelude')
    asm.guard('''pub mod guard_c10b { use vstd::prelude::*; use super::lib::*;
proof fn vacuity_pre(o: v1::Function, n: v1::Function, st: Map<u64, F64>) requires pe(o, n, st), fn_fin(o), state_fin(st), st.contains_key(7), fn_ids(o).contains(7) { assert(false); }
}
''', 'vacuity: pe')
    asm.raw(common.FOOTER)
    return dict(
        min_items=9,
        trusted_base=common.TRUSTED_COMMON + common.T4_COLLECTIONS + [
            'T5 ASSUMED callee contract: Linear::new (verified in C02 / C12); R28 model type VMap for BTreeMap<Vec<u64>, f64>; helper contracts opt_linear_constant / opt_linear_terms / btree_into_pairs of Quadratic::partial_evaluate',
            'T4: iter().map(C).collect::<BTreeSet>() over an annotated closure, HashMap::keys().cloned().collect(), BTreeSet::is_subset',
            'R16: `mut self` bound to a local; R17: destructuring parameter patterns bound by a first `let`; R25: `for x in v.iter_mut()` as index loop',
            'declared substitution: the `for ids in required_ids.difference(&given_ids) { log::error!(..) }` loop (logging only) is dropped',
        ],
        assumptions=common.A1,
        not_covered=[],
    )
