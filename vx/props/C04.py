"""C04 - Substitution is function composition and dependent variables are recovered."""
from vx import core, v1types
from vx.props import common
from vx.units import evaluate as ev, substitute as su, fn_stubs as fs, iters
from vx.units import algebra as al


def build(asm, tier):
    asm.raw(common.HEADER)
    asm.raw('pub mod lib {\n' + common.LIB_USES)
    asm.file('prelude/f64_model.rs')
    asm.file('prelude/anyhow_model.rs')
    asm.file('prelude/std_helpers.rs')
    t, enums = v1types.v1_module(asm.rules)
    asm.extracted(t, 'ommx.v1.rs message types')
    asm.file('spec/poly_value.rs')
    asm.raw('''pub open spec fn ec_value_ok(f: v1::Function, st: Map<u64, F64>, v: F64) -> bool {
    (fn_fin(f) && state_fin(st) ==> v@ == XR::Fin(fn_val(f, st)))
    && (f.function is None ==> v@ == XR::Fin(0real))
    && (f.function is Some && f.function->Some_0 is Constant ==> v == f.function->Some_0->Constant_0)
}
''')
    asm.file('spec/dep_spec.rs')
    asm.raw(su.ZERO_SPEC)
    asm.file('spec/fn_algebra_rem.rs')
    asm.file('spec/fn_algebra.rs')
    asm.extracted(al.sorted_ids_type(), 'sorted_ids.rs newtype SortedIds')
    for sp in iters.ITER_SPECS:
        asm.file(sp)
    asm.file('spec/substitute_spec.rs')
    asm.raw(su.SUBST_SPEC)
    asm.raw('} // mod lib\npub mod units {\n' + common.UNITS_USES + 'broadcast use super::lib::lemma_dep_ok_insert, super::lib::lemma_in_keys_drop_last, super::lib::lemma_in_keys_push, super::lib::lemma_in_keys_append_empty;\n')
    for u in (ev.linear_evaluate(), ev.quadratic_evaluate(), ev.polynomial_evaluate(), ev.function_evaluate()):
        asm.unit(u)
    asm.unit(ev.eval_dependencies())
    for u in iters.iterator_units():
        asm.unit(u)
    asm.raw(fs.ADD + fs.MUL + iters.SORT_STUB + su.FN_SUBST_STUBS, 'assumed callee contracts of Function::substitute')
    for n, where in (('Function + Function', 'C02 (same preconditions: oneofs set, fn_coo_ok); purity naming r == fn_add(..) is assumed'),
                     ('Function * Function', 'C02 (same preconditions); purity naming r == fn_mul(..) is assumed'),
                     ('Function * Linear', 'C02 (macro instance impl_mul_from!(Function, Linear, Function))'),
                     ('name_terms: the list the term iterator yields for a message is a function of the message (purity naming fn_terms)', 'assumed; everything else about the term iterators is proved here on the real code (same units as C02; lemma_fn_terms / lemma_fn_terms_fin replace the former axioms)'),
                     ('Function::zero', 'C02'), ('From<f64> for Function', 'C02'), ('Linear::single_term', 'C13'),
                     ('SortedIds::iter', 'R13: Deref to a slice, `.iter()` enumerates the ids of the list in order (verified glue sorted_ids_to_vec over the extracted newtype)')):
        asm.stubs.append(dict(unit=n, proved_in=where))
    asm.unit(su.function_substitute())
    asm.raw(su.SUBST_STUBS, 'HashMap::iter_mut loop over the dependency functions and HashMap::extend as helpers')
    asm.stubs.append(dict(unit='loop `for (_, f) in dependency.iter_mut() { *f = f.substitute(..)? }` (helper substitute_all_values) and HashMap::extend', proved_in='assumed helper contracts (no HashMap::iter_mut specification in vstd)'))
    asm.unit(su.instance_substitute())
    asm.raw('} // mod units\n')
    asm.guard(common.guard_fn('c04', '', uses='use super::lib::*;'), 'vacuity: prelude')
    asm.guard('''pub mod guard_c04b { use vstd::prelude::*; use super::lib::*;
proof fn vacuity_pre(d: Map<u64, v1::Function>, s: Map<u64, F64>) requires disj(d, s), d.contains_key(3), s.contains_key(4) { assert(false); }
}
''', 'vacuity: precondition of eval_dependencies')
    asm.guard('''pub mod guard_c04c { use vstd::prelude::*; use super::lib::*;
proof fn vacuity_subst(f: v1::Function, rep: Map<u64, v1::Function>, fss: Seq<Seq<v1::Function>>, m: Map<u64, F64>, m2: Map<u64, F64>)
    requires fn_fin(f), rep_ok(rep), fn_coo_ok(f), fn_titems_ok(fn_terms(f), f), rep.len() != 0, fn_terms(f).len() > 0, fn_terms(f)[0].0@.len() > 0,
        all_factors_ok(fn_terms(f), fss, rep, fn_terms(f).len() as int), acc_steps_ok(fn_terms(f), fss, fn_terms(f).len() as int),
        forall|i: int| 0 <= i < fn_terms(f).len() ==> composed_state(m2, m, rep, (#[trigger] fn_terms(f)[i]).0@),
{ broadcast use ax_zero_f64; lemma_fn_terms(f, m2); lemma_fn_terms_fin(f); lemma_substitute_value(f, rep, fss, m, m2); assert(false); }
}
''', 'vacuity: premises of lemma_substitute_value and the term-list axioms')
    asm.raw(common.FOOTER)
    return dict(
        composes_with={'C05': ['Instance::evaluate', 'eval_dependencies', 'Instance::check_bound'], 'C02': '*'},      # evaluation of the substituted instance (C05); the Function operators Function::substitute builds its expression with (C02)
        min_items=10,
        trusted_base=common.TRUSTED_COMMON + common.T4_COLLECTIONS + [
            'T4: HashMap::iter().collect() yields each entry exactly once in SOME order (helper hashmap_iter_collect): the proof holds for every iteration order',
            'T4: itertools::multizip (helper zip3)',
            'T5 ASSUMED for Function::substitute: operator contracts Function+Function, Function*Function, Function*Linear (pure, value up to an explicit remainder), the purity naming of the term list (name_terms; the term iterators themselves are verified units, R31), Function::zero, From<f64>, Linear::single_term',
            'T5 ASSUMED for Instance::substitute: the HashMap::iter_mut loop over the dependency functions and HashMap::extend are helpers with the obvious contracts (the loop body is one call of Function::substitute)',
        ],
        assumptions=common.A1 + ['precondition taken from the property: dependent-variable ids are not keys of the state passed in (Instance::evaluate passes the user state extended by substituted values)'] + common.A_COO,
        not_covered=['the operator leaves used by Function::substitute (assumed contracts with explicit remainders, see C02)', 'exactness of the returned used-id set of eval_dependencies'],
    )
