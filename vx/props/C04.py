"""C04 - Substitution is function composition and dependent variables are recovered."""
from vx import core, v1types
from vx.props import common
from vx.units import evaluate as ev


def build(asm, tier):
    asm.raw(common.HEADER)
    asm.raw('pub mod lib {\n' + common.LIB_USES)
    asm.file('prelude/f64_model.rs')
    asm.file('prelude/anyhow_model.rs')
    asm.file('prelude/std_helpers.rs')
    t, enums = v1types.v1_module(asm.rules)
    asm.extracted(t, 'ommx.v1.rs message types')
    asm.file('spec/poly_value.rs')
    asm.raw('''pub open spec fn ec_value_ok(f: v1::Function, st: Map<u64, F64>, v: F64) -> bool {
    (fn_fin(f) && state_fin(st) ==> v@ == XR::Fin(fn_val(f, st)))
    && (f.function is None ==> v@ == XR::Fin(0real))
    && (f.function is Some && f.function->Some_0 is Constant ==> v == f.function->Some_0->Constant_0)
}
''')
    asm.file('spec/dep_spec.rs')
    asm.raw('} // mod lib\npub mod units {\n' + common.UNITS_USES + 'broadcast use super::lib::lemma_dep_ok_insert, super::lib::lemma_in_keys_drop_last, super::lib::lemma_in_keys_push, super::lib::lemma_in_keys_append_empty;\n')
    for u in (ev.linear_evaluate(), ev.quadratic_evaluate(), ev.polynomial_evaluate(), ev.function_evaluate()):
        asm.unit(u)
    asm.unit(ev.eval_dependencies())
    asm.raw('} // mod units\n')
    asm.guard(common.guard_fn('c04', '', uses='use super::lib::*;'), 'vacuity: prelude')
    asm.guard('''pub mod guard_c04b { use vstd::prelude::*; use super::lib::*;
proof fn vacuity_pre(d: Map<u64, v1::Function>, s: Map<u64, F64>) requires disj(d, s), d.contains_key(3), s.contains_key(4) { assert(false); }
}
''', 'vacuity: precondition of eval_dependencies')
    asm.raw(common.FOOTER)
    return dict(
        min_items=10,
        trusted_base=common.TRUSTED_COMMON + common.T4_COLLECTIONS + [
            'T4: HashMap::iter().collect() yields each entry exactly once in SOME order (helper hashmap_iter_collect): the proof holds for every iteration order',
            'T4: itertools::multizip (helper zip3)',
        ],
        assumptions=common.A1 + ['precondition taken from the property: dependent-variable ids are not keys of the state passed in (Instance::evaluate passes the user state extended by substituted values)'],
        not_covered=['Function::substitute and Instance::substitute (BTreeMap-merge based operator code: Entry route not finished; see DESIGN)', 'exactness of the returned used-id set of eval_dependencies'],
    )
