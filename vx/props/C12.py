"""C12 - Log-encoding covers exactly the integer range."""
from vx import core, v1types
from vx.props import common
from vx.units import instance_ops as io, algebra as al, validate as va

STUBS = '''impl Instance {
    // Instance::defined_ids (iterator collect; verified in C08)
    #[verifier::external_body] pub fn defined_ids(&self) -> (r: BTreeSet<u64>) ensures r@ == dv_ids(self.decision_variables@, self.decision_variables.len() as int) { unimplemented!() }
}
'''


def build(asm, tier):
    asm.raw(common.HEADER)
    asm.raw('pub mod lib {\n' + common.LIB_USES)
    asm.file('prelude/f64_model.rs')
    asm.file('prelude/anyhow_model.rs')
    asm.file('prelude/std_helpers.rs')
    asm.file('prelude/btree_entry.rs')
    t, enums = v1types.v1_module(asm.rules)
    asm.extracted(t, 'ommx.v1.rs message types')
    asm.file('spec/logenc_spec.rs')
    asm.file('spec/c12_spec.rs')
    asm.file('spec/poly_value.rs')
    asm.file('spec/merge_spec.rs')
    asm.raw('} // mod lib\npub mod units {\n' + common.UNITS_USES + 'use super::lib::v1::decision_variable::Kind;\nbroadcast use super::lib::ax_default_f64, super::lib::lemma_dv_ids_mem_b;\n')
    asm.raw(al.MERGE_STUBS, 'assumed callee contracts')
    asm.unit(va.defined_ids())
    asm.stubs.append(dict(unit='BTreeMap::into_iter().map(..).collect() (btree_into_terms)', proved_in='std contract'))
    asm.unit(al.linear_new())
    asm.unit(io.linear_from_f64())
    asm.unit(io.log_encode())
    asm.file('spec/c12_lemmas.rs')
    asm.raw('} // mod units\n')
    asm.guard(common.guard_fn('c12', 'ax_int_consts(); ax_int_add(1real, 1real); ax_floor(1real / 2real); ax_ceil(1real / 2real); ax_discrete(0real, 1real);', uses='use super::lib::*;'), 'vacuity: axioms')
    asm.guard('''pub mod guard_c12b { use vstd::prelude::*; use super::lib::*;
proof fn vacuity_pre(n: nat, u: real, bits: Seq<bool>) requires n >= 2, is_intr(u), p2((n - 1) as nat) <= u < p2(n), bits.len() == n { assert(false); }
proof fn vacuity_ok(v: v1::DecisionVariable) requires logenc_ok(v) { assert(false); }
}
''', 'vacuity: lemma premises')
    asm.raw(common.FOOTER)
    return dict(
        min_items=10,
        trusted_base=common.TRUSTED_COMMON + common.T4_COLLECTIONS + [
            'axioms: integrality is closed under + and -, 0 and 1 are integers (ax_int_consts, ax_int_add)',
            'A2: `x.log2().ceil() as usize` = exact ceil(log2 x) for finite x > 1 (<= 1024), usize::MAX for +inf (helper ceil_log2_usize)',
            'T4: BTreeSet::last = greatest element; Option::map over an annotated closure (R11)',
            'T4: iter().map(C).collect::<BTreeSet>() over an annotated closure (helper iter_map_collect_set); Instance::defined_ids is a verified unit of this check',
            'T4 std contracts of the BTreeMap entry API (entry / or_default with a prophecy-style &mut, remove) and of into_iter().map().collect() (ascending key order): prelude/btree_entry.rs',
        ],
        assumptions=common.A1 + ['precondition (observation, not in the property): defined ids are below 2^64 - 65536 so that max id + 1 + i cannot overflow'],
        not_covered=[],
    )
