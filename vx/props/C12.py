"""C12 - Log-encoding covers exactly the integer range."""
from vx import core, v1types
from vx.props import common
from vx.units import instance_ops as io

STUBS = '''impl Instance {
    // Instance::defined_ids (iterator collect; verified in C08)
    #[verifier::external_body] pub fn defined_ids(&self) -> (r: BTreeSet<u64>) ensures r@ == dv_ids(self.decision_variables@, self.decision_variables.len() as int) { unimplemented!() }
}
impl Linear {
    // Linear::new instantiated at Vec (R22); BTreeMap-merge code, ASSUMED here (Entry route, see C02): for strictly increasing ids and
    // coefficients that are not dropped (|c| > 2^-52) the term list is the input list
    #[verifier::external_body] pub fn new(terms: Vec<(u64, F64)>, constant: F64) -> (r: Linear)
        ensures r.constant == constant,
            (forall|i: int, j: int| 0 <= i < j < terms.len() ==> (#[trigger] terms[i]).0 < (#[trigger] terms[j]).0)
            && (forall|i: int| 0 <= i < terms.len() ==> (#[trigger] terms[i]).1@ is Fin && rabs(terms[i].1@->Fin_0) > eps_real())
            ==> r.terms.len() == terms.len() && forall|i: int| 0 <= i < terms.len() ==> (#[trigger] r.terms[i]).id == terms[i].0 && r.terms[i].coefficient == terms[i].1,
    { unimplemented!() }
}
'''


def build(asm, tier):
    asm.raw(common.HEADER)
    asm.raw('pub mod lib {\n' + common.LIB_USES)
    asm.file('prelude/f64_model.rs')
    asm.file('prelude/anyhow_model.rs')
    asm.file('prelude/std_helpers.rs')
    t, enums = v1types.v1_module(asm.rules)
    asm.extracted(t, 'ommx.v1.rs message types')
    asm.file('spec/logenc_spec.rs')
    asm.file('spec/c12_spec.rs')
    asm.raw('} // mod lib\npub mod units {\n' + common.UNITS_USES + 'use super::lib::v1::decision_variable::Kind;\n')
    asm.raw(STUBS, 'assumed callee contracts')
    asm.stubs.append(dict(unit='Instance::defined_ids', proved_in='C08'))
    asm.stubs.append(dict(unit='Linear::new', proved_in=''))
    asm.unit(io.linear_from_f64())
    asm.unit(io.log_encode())
    asm.file('spec/c12_lemmas.rs')
    asm.raw('} // mod units\n')
    asm.guard(common.guard_fn('c12', 'ax_int_consts(); ax_int_add(1real, 1real); ax_floor(1real / 2real); ax_ceil(1real / 2real); ax_discrete(0real, 1real);', uses='use super::lib::*;'), 'vacuity: axioms')
    asm.guard('''pub mod guard_c12b { use vstd::prelude::*; use super::lib::*;
proof fn vacuity_pre(n: nat, u: real, bits: Seq<bool>) requires n >= 2, is_intr(u), p2((n - 1) as nat) <= u < p2(n), bits.len() == n { assert(false); }
proof fn vacuity_ok(v: v1::DecisionVariable) requires logenc_ok(v) { assert(false); }
}
''', 'vacuity: lemma premises')
    asm.raw(common.FOOTER)
    return dict(
        min_items=10,
        trusted_base=common.TRUSTED_COMMON + common.T4_COLLECTIONS + [
            'axioms: integrality is closed under + and -, 0 and 1 are integers (ax_int_consts, ax_int_add)',
            'A2: `x.log2().ceil() as usize` = exact ceil(log2 x) for finite x > 1 (<= 1024), usize::MAX for +inf (helper ceil_log2_usize)',
            'T4: BTreeSet::last = greatest element; Option::map over an annotated closure (R11)',
            'T5 ASSUMED callee contracts: Linear::new on strictly increasing, non-dropped terms returns them unchanged; Instance::defined_ids = set of defined ids',
        ],
        assumptions=common.A1 + ['precondition (observation, not in the property): defined ids are below 2^64 - 65536 so that max id + 1 + i cannot overflow'],
        not_covered=[],
    )
