"""C15 - Sense-aware operations select the right optimum."""
from vx import core, v1types
from vx.props import common
from vx.units import instance_ops as io, sample_set as ss, evaluate as ev, fn_stubs


def build(asm, tier):
    asm.raw(common.HEADER)
    asm.raw('pub mod lib {\n' + common.LIB_USES)
    asm.file('prelude/f64_model.rs')
    asm.file('prelude/anyhow_model.rs')
    asm.file('prelude/std_helpers.rs')
    t, enums = v1types.v1_module(asm.rules)
    asm.extracted(t, 'ommx.v1.rs message types')
    asm.file('spec/poly_value.rs')
    asm.raw('''pub open spec fn zero_fn() -> v1::Function { v1::Function { function: Some(v1::function::Function::Constant(zero_f64())) } }
pub uninterp spec fn zero_f64() -> F64;
pub broadcast axiom fn ax_zero_f64() ensures (#[trigger] zero_f64())@ == XR::Fin(0real);
pub open spec fn ofun(i: v1::Instance) -> v1::Function { match i.objective { Some(f) => f, None => zero_fn() } }
''')
    asm.file('spec/fn_algebra_rem.rs')
    asm.file('spec/fn_algebra.rs')
    asm.raw(ss.BEST_SPEC, 'best-feasible ghost definitions')
    asm.raw('} // mod lib\npub mod units {\n' + common.UNITS_USES + 'use super::lib::v1::instance::Sense;\nbroadcast use super::lib::ax_zero_f64;\n')
    asm.raw(fn_stubs.NEG + fn_stubs.ZERO, 'assumed callee contracts (Neg for Function, Function::zero)')
    asm.stubs.append(dict(unit='Neg for Function', proved_in='C02'))
    asm.stubs.append(dict(unit='Function::zero', proved_in='C02'))
    for u in (ev.instance_objective(), io.as_minimization_problem(), ss.feasible_relaxed(), ss.feasible_unrelaxed(), ss.sampled_values_get_exact(), ss.sample_set_objectives(), ss.sample_set_best(), ss.feasible_ids(), ss.feasible_unrelaxed_ids(), ss.best_feasible_id(), ss.best_feasible_unrelaxed_id()):
        asm.unit(u)
    asm.raw('''// property lemmas: both problems rank all assignments identically (up to the explicit remainder), and the conversion is idempotent by its first clause
proof fn lemma_same_ranking(f: Function, g: Function, x: Map<u64, F64>, y: Map<u64, F64>)
    requires is_neg(g, f), fn_fin(f), neg_rem(f, x) == 0real, neg_rem(f, y) == 0real
    ensures fn_val(f, x) >= fn_val(f, y) <==> fn_val(g, x) <= fn_val(g, y)
{}
''', 'property lemma')
    asm.raw('} // mod units\n')
    asm.guard(common.guard_fn('c15', 'broadcast use ax_zero_f64;', uses='use super::lib::*;'), 'vacuity: axioms')
    asm.guard('''pub mod guard_c15b { use vstd::prelude::*; use super::lib::*;
proof fn vacuity_pre(f: v1::Function, g: v1::Function, x: Map<u64, F64>) requires is_neg(g, f), fn_fin(f), neg_rem(f, x) == 0real { assert(false); }
}
''', 'vacuity: is_neg')
    asm.raw(common.FOOTER)
    return dict(
        composes_with={'C02': '*'},      # the Function operators used here are the contracts proved in C02
        min_items=5,
        trusted_base=common.TRUSTED_COMMON + common.T4_COLLECTIONS + [
            'T5 ASSUMED callee contract: Neg for Function yields a function whose value is the negated value minus an explicit (uninterpreted) epsilon-drop remainder (dispatch layer decided in C02)',
            'T4: prost accessor sense(): code -> variant',
            'T4 std helpers: Iterator::min_by (least element for every transitive relation the comparator refines), f64::total_cmp (strict order on finite values), HashMap::iter().filter_map(C).collect(), BTreeSet::into_iter, bool::then_some',
        ],
        assumptions=common.A1 + common.A_COO,
        not_covered=['SampleSet::best_feasible / best_feasible_unrelaxed: they assemble the Solution through SampleSet::get (C06 territory); bounded stand-in only'],
    )
