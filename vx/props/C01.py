"""C01 - Evaluating a function returns the polynomial's mathematical value."""
from vx import core, v1types
from vx.props import common
from vx.units import evaluate as ev


def build(asm, tier):
    asm.raw(common.HEADER)
    asm.raw('pub mod lib {\n' + common.LIB_USES)
    asm.file('prelude/f64_model.rs')
    asm.file('prelude/anyhow_model.rs')
    asm.file('prelude/std_helpers.rs')
    t, enums = v1types.v1_module(asm.rules)
    asm.extracted(t, 'ommx.v1.rs message types')
    asm.file('spec/poly_value.rs')
    asm.raw('} // mod lib\npub mod units {\n' + common.UNITS_USES)
    for u in (ev.linear_evaluate(), ev.quadratic_evaluate(), ev.polynomial_evaluate(), ev.function_evaluate()):
        asm.unit(u)
    asm.raw('''// property lemma: the schema case (three COO arrays of equal length) of the quadratic contract
proof fn lemma_quadratic_schema_case(q: Quadratic, m: Map<u64, F64>)
    requires q.rows.len() == q.columns.len(), q.rows.len() == q.values.len()
    ensures quad_n(q) == q.values.len()
{}
''', 'property lemmas', kind='lemma')
    asm.raw('} // mod units\n')
    asm.guard(common.guard_fn('c01', '', uses='use super::lib::*;'), 'vacuity: prelude')
    asm.guard('''pub mod guard_c01b { use vstd::prelude::*; use super::lib::*;
proof fn vacuity_fin(f: v1::Function, m: Map<u64, F64>) requires fn_fin(f), state_fin(m), fn_present(f, m) { assert(false); }
}
''', 'vacuity: finiteness premises')
    asm.raw(common.FOOTER)
    return dict(
        min_items=8,
        trusted_base=common.TRUSTED_COMMON + common.T4_COLLECTIONS + [
            'T4: itertools::multizip of three slice iterators = element-wise triples up to the shortest length (helper zip3)',
            'T4: generated structural Clone/Default for prost messages (vx/v1types.py)',
            'impl Evaluate for T emitted as inherent methods of T (evaluate_samples dropped)',
        ],
        assumptions=common.A1 + ['value clauses are stated for finite coefficients and finite state values (the property quantifies over finite coefficients); presence/Err and id-set clauses hold for all inputs'],
        not_covered=['bit-exactness for dyadic inputs and the rigorous rounding bound (A1 abstracts rounding)'],
    )
