"""C09 - Penalty methods keep every constraint and build f + weighted squared violations."""
from vx import core, v1types
from vx.props import common
from vx.units import instance_ops as io, evaluate as ev, fn_stubs


from vx.units import validate as va

def build(asm, tier):
    asm.raw(common.HEADER)
    asm.raw('pub mod lib {\n' + common.LIB_USES)
    asm.file('prelude/f64_model.rs')
    asm.file('prelude/anyhow_model.rs')
    asm.file('prelude/std_helpers.rs')
    t, enums = v1types.v1_module(asm.rules)
    asm.extracted(t, 'ommx.v1.rs message types')
    asm.file('spec/poly_value.rs')
    asm.raw('''pub open spec fn zero_fn() -> v1::Function { v1::Function { function: Some(v1::function::Function::Constant(zero_f64())) } }
pub uninterp spec fn zero_f64() -> F64;
pub broadcast axiom fn ax_zero_f64() ensures (#[trigger] zero_f64())@ == XR::Fin(0real);
pub open spec fn ofun(i: v1::Instance) -> v1::Function { match i.objective { Some(f) => f, None => zero_fn() } }
pub open spec fn cfun(c: v1::Constraint) -> v1::Function { match c.function { Some(f) => f, None => zero_fn() } }
''')
    asm.file('spec/fn_algebra_rem.rs')
    asm.file('spec/fn_algebra.rs')
    asm.file('spec/c12_spec.rs')
    asm.file('spec/penalty_spec.rs')
    asm.raw('} // mod lib\npub mod units {\n' + common.UNITS_USES + 'broadcast use super::lib::ax_zero_f64, super::lib::lemma_pen_obj_push, super::lib::lemma_pen_steps_push;\n')
    asm.raw(fn_stubs.ADD + fn_stubs.MUL + fn_stubs.PARMUL + fn_stubs.ZERO, 'assumed callee contracts')
    for n, where in (('Add for Function', 'C02 (same preconditions: oneofs set, fn_coo_ok); purity naming r == fn_add(..) is assumed'),
                     ('Mul for Function', 'C02 (same preconditions); purity naming r == fn_mul(..) is assumed'),
                     ('Mul<Function> for &Parameter', 'assumed here (macro instance impl_mul_parameter!(Function) = Linear::from(&p) * f, with the remainder named pmul_rem); exercised by the bounded stand-in'),
                     ('Function::zero', 'C02')):
        asm.stubs.append(dict(unit=n, proved_in=where))
    for u in (ev.instance_objective(), ev.constraint_function(), io.penalty_method(), io.uniform_penalty_method()):
        asm.unit(u)
    asm.raw('} // mod units\n')
    # Instance::defined_ids in a module of its own: the broadcast membership lemma stays out of the other units' contexts
    asm.raw('pub mod dunits {\n' + common.UNITS_USES + 'broadcast use super::lib::lemma_dv_ids_mem_b;\n')
    asm.unit(va.defined_ids())
    asm.raw('} // mod dunits\n')
    asm.guard(common.guard_fn('c09', 'broadcast use ax_zero_f64;', uses='use super::lib::*;'), 'vacuity: axioms')
    asm.guard('''pub mod guard_c09b { use vstd::prelude::*; use super::lib::*;
proof fn vacuity_pre(f: v1::Function, cs: Seq<v1::Constraint>, ps: Seq<v1::Parameter>, m: Map<u64, F64>) requires cs.len() == 2, ps.len() == 2, fn_fin(f), cs_fin(cs), pen_steps_ok(f, cs, ps, 2) { assert(false); }
}
''', 'vacuity: lemma premises')
    asm.raw(common.FOOTER)
    return dict(
        composes_with={'C02': '*'},      # the Function operators used here are the contracts proved in C02
        min_items=6,
        trusted_base=common.TRUSTED_COMMON + common.T4_COLLECTIONS + [
            'T5 ASSUMED callee contracts (dispatch layer decided in C02): Function + Function, Function * Function, &Parameter * Function are pure and compute sum / product up to an explicit epsilon-drop remainder; Function::zero (Instance::defined_ids is a verified unit of this check)',
            'T4: Vec::into_iter().enumerate() (helper enumerate_vec), BTreeSet::last, Option::map over an annotated closure, maplit::hashmap! with one entry, u64::to_string',
            'R21: `&parameter * f.clone() * f` rewritten to the UFCS call of `impl Mul<Function> for &Parameter` (Verus mis-resolves operators on reference receivers)',
        ],
        assumptions=common.A1 + ['preconditions (observations outside the property): no id overflow, oneofs of objective/constraint functions are set'] + common.A_COO,
        not_covered=[],
    )
