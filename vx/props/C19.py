"""C19 - QPLIB files are read as the problem they describe: conversion kernels only (text layer not applicable)."""
from vx import core, v1types
from vx.props import common
from vx.units import qplib


def build(asm, tier):
    asm.raw(common.HEADER)
    asm.raw('pub mod lib {\n' + common.LIB_USES)
    asm.file('prelude/f64_model.rs')
    asm.file('prelude/anyhow_model.rs')
    asm.file('prelude/std_helpers.rs')
    asm.raw(common.ZERO_TRAIT)
    t, enums = v1types.v1_module(asm.rules)
    asm.extracted(t, 'ommx.v1.rs message types')
    asm.file('spec/poly_value.rs')
    os_ = core.get_type('qplib/parser.rs', 'enum', 'ObjSense', asm.rules, keep_derives=('Clone', 'Copy', 'PartialEq', 'Eq'))
    asm.extracted(os_['text'] + '''// T4: (usize, usize) obeys the HashMap key model
pub broadcast axiom fn ax_pair_key_model() ensures #[trigger] vstd::std_specs::hash::obeys_key_model::<(usize, usize)>();
// e enumerates the entries of the map, each exactly once
pub open spec fn qp_enum(m: Map<(usize, usize), F64>, e: Seq<((usize, usize), F64)>) -> bool {
    &&& forall|j: int| 0 <= j < e.len() ==> m.contains_key((#[trigger] e[j]).0) && m[e[j].0] == e[j].1
    &&& forall|k: (usize, usize)| m.contains_key(k) ==> exists|j: int| 0 <= j < e.len() && (#[trigger] e[j]).0 == k
    &&& forall|i: int, j: int| 0 <= i < j < e.len() ==> (#[trigger] e[i]).0 != (#[trigger] e[j]).0
}
pub open spec fn lp_enum(m: Map<usize, F64>, e: Seq<(usize, F64)>) -> bool {
    &&& forall|j: int| 0 <= j < e.len() ==> m.contains_key((#[trigger] e[j]).0) && m[e[j].0] == e[j].1
    &&& forall|k: usize| m.contains_key(k) ==> exists|j: int| 0 <= j < e.len() && (#[trigger] e[j]).0 == k
    &&& forall|i: int, j: int| 0 <= i < j < e.len() ==> (#[trigger] e[i]).0 != (#[trigger] e[j]).0
}
pub open spec fn lp_enum_ref(m: Map<usize, F64>, h: Seq<(&usize, &F64)>) -> bool {
    &&& forall|j: int| 0 <= j < h.len() ==> m.contains_key(*(#[trigger] h[j]).0) && m[*h[j].0] == *h[j].1
    &&& forall|k: usize| m.contains_key(k) ==> exists|j: int| 0 <= j < h.len() && *(#[trigger] h[j]).0 == k
    &&& forall|i: int, j: int| 0 <= i < j < h.len() ==> *(#[trigger] h[i]).0 != *(#[trigger] h[j]).0
}
''', 'qplib ObjSense + enumeration vocabulary')
    vt = core.get_type('qplib/parser.rs', 'enum', 'VarType', asm.rules, keep_derives=('Clone', 'Copy', 'PartialEq', 'Eq'))
    qf = core.get_type('qplib/parser.rs', 'struct', 'QplibFile', asm.rules, keep_derives=())
    asm.extracted(vt['text'] + '// ProblemType (a tuple of three kind letters) is not read by the conversion: opaque here\n#[verifier::external_body] pub struct ProblemType { _p: u8 }\n' + qf['text']
                  + '''// Option<&String>::cloned (T4)
#[verifier::external_body] pub fn opt_cloned(o: Option<&String>) -> (r: Option<String>) ensures o is None ==> r is None, o is Some ==> r == Some(*o->Some_0) { o.cloned() }
''', 'qplib VarType, QplibFile')
    asm.raw(qplib.OBJ_SPEC, 'convert_objective: the linear part')
    asm.raw('} // mod lib\npub mod units {\n' + common.UNITS_USES + 'broadcast use super::lib::ax_pair_key_model;\n')
    asm.raw('''impl Zero for Quadratic {
    #[verifier::external_body] fn zero() -> Self { unimplemented!() }
    // Zero::is_zero for Quadratic (quadratic.rs; closure over Option::is_none_or - T5 assumed)
    #[verifier::external_body] fn is_zero(&self) -> (r: bool)
        ensures r == (self.columns.len() == 0 && self.rows.len() == 0 && self.values.len() == 0 && (self.linear is None || (self.linear->Some_0.terms.len() == 0 && self.linear->Some_0.constant@ == XR::Fin(0real))))
    { unimplemented!() }
}
impl Zero for Linear {
    #[verifier::external_body] fn zero() -> Self { unimplemented!() }
    // Zero::is_zero for Linear (linear.rs; verified in C02 with this contract)
    #[verifier::external_body] fn is_zero(&self) -> (r: bool) ensures r == (self.terms.len() == 0 && self.constant@ == XR::Fin(0real)) { unimplemented!() }
}
''', 'callee contracts: Quadratic::is_zero (assumed), Linear::is_zero (C02)')
    asm.stubs.append(dict(unit='Zero::is_zero for Linear', proved_in='C02'))
    asm.stubs.append(dict(unit='Zero::is_zero for Quadratic', proved_in='assumed (closure over Option::is_none_or; the same text is assumed in C02); exercised by the bounded stand-in'))
    for u in (qplib.to_quadratic(), qplib.to_linear(), qplib.wrap_function(), qplib.convert_sense(), qplib.convert_dvars(), qplib.convert_objective()):
        asm.unit(u)
    asm.raw('} // mod units\n')
    asm.guard(common.guard_fn('c19', 'broadcast use ax_pair_key_model;', uses='use super::lib::*;'), 'vacuity: axioms')
    asm.guard('''pub mod guard_c19b { use vstd::prelude::*; use super::lib::*;
proof fn vacuity_pre(m: Map<(usize, usize), F64>, e: Seq<((usize, usize), F64)>) requires qp_enum(m, e), e.len() == 2, m.contains_key((1usize, 1usize)) { assert(false); }
}
''', 'vacuity: enumeration')
    asm.raw(common.FOOTER)
    return dict(
        min_items=3,
        trusted_base=common.TRUSTED_COMMON + common.T4_COLLECTIONS + [
            'T4: HashMap::iter() yields each entry exactly once in SOME order; (usize, usize) obeys the key model',
            'T5 ASSUMED: Zero::is_zero for Quadratic',
            'std helper contracts: Vec::retain as vec_retain (the items on which the closure answers true, in order); field assignment through a Vec index `v[i].f = x` is written as clone / assign / Vec::set (R33); `(0..n).map(C).collect()` is verified through the vstd specifications of Range and collect',
        ],
        assumptions=common.A1,
        not_covered=['the section-by-section text reader (QplibFile::from_lines, type codes, counts, numbers, line numbers in errors): str code outside Verus and CBMC',
                     'convert_constraints (format!-built names, two pushes per row), apply_infinity_threshold (closures over &mut): bounded stand-in only'],
    )
