"""C02 - Function arithmetic is exact polynomial arithmetic for every operand mix (dispatch / upcast / macro layer and map-free leaves)."""
from vx import core, v1types
from vx.props import common
from vx.units import algebra as al
from vx.units.instance_ops import linear_single_term as io_single_term
from vx.units import iters


def build(asm, tier):
    asm.raw(common.HEADER)
    asm.raw('pub mod lib {\n' + common.LIB_USES)
    asm.file('prelude/f64_model.rs')
    asm.file('prelude/anyhow_model.rs')
    asm.file('prelude/std_helpers.rs')
    asm.file('prelude/btree_entry.rs')
    asm.file('prelude/vmap_model.rs')
    asm.extracted(al.sorted_ids_type(), 'sorted_ids.rs newtype SortedIds')
    asm.raw(al.smap_model(), 'R28 model for BTreeMap<SortedIds, f64>')
    asm.raw(common.ZERO_TRAIT)
    t, enums = v1types.v1_module(asm.rules)
    asm.extracted(t, 'ommx.v1.rs message types')
    asm.file('spec/poly_value.rs')
    asm.file('spec/merge_spec.rs')
    asm.file('spec/kmerge_spec.rs')
    asm.file('spec/padd_spec.rs')
    asm.file('spec/ppe_spec.rs')
    asm.file('spec/perm_spec.rs')
    asm.file('spec/iter_spec.rs')
    asm.raw(al.leaf_spec_text(), 'generated remainder definitions')
    asm.file('spec/lmul_spec.rs')
    asm.file('spec/up_spec.rs')
    asm.file('spec/fn_algebra.rs')
    asm.raw(al.CONV_SPEC, 'upcast / negation / difference predicates of the macro layer')
    asm.raw(al.LEMMAS, 'algebra lemmas')
    asm.raw(al.VAR_SPEC, 'variables / parameters as operands')
    asm.raw('} // mod lib\npub mod units {\n' + common.UNITS_USES + 'broadcast use super::lib::ax_default_f64, super::lib::ax_pair_u64_cmp;\n')
    stubs, names = al.leaf_stubs()
    asm.raw(stubs + al.MERGE_STUBS + al.PMERGE_STUBS + al.PMUL_STUBS, 'assumed callee contracts (BTreeMap-merge leaves)')
    for n in names:
        asm.stubs.append(dict(unit=n, proved_in=''))
    for u in al.zero_linear() + al.zero_quadratic_polynomial() + al.from_units() + [al.linear_add_f64(), al.linear_mul_f64(), al.quadratic_add_f64(), al.quadratic_mul_f64(), al.polynomial_mul_f64(), al.function_add(), al.function_mul(), al.linear_add_linear(), al.linear_new(), al.quadratic_add_linear(), al.quadratic_quad_iter(), al.quadratic_from_iter(), al.quadratic_add_quadratic(), al.linear_mul_linear(), al.polynomial_add_polynomial()] + al.sorted_ids_units() + [al.polynomial_terms(), al.polynomial_from_iter(), al.polynomial_mul_polynomial(), iters.linear_terms(), iters.quadratic_terms(), iters.sorted_ids_empty(), iters.function_terms()] + iters.sorted_ids_from_units() + iters.polynomial_from_units() + [iters.quadratic_mul_quadratic()] + al.macro_units() + al.typed_macro_units() + [io_single_term()] + al.var_units():
        asm.unit(u)
    asm.raw('} // mod units\n')
    asm.guard(common.guard_fn('c02', '', uses='use super::lib::*;'), 'vacuity: prelude')
    asm.guard('''pub mod guard_c02b { use vstd::prelude::*; use super::lib::*;
proof fn vacuity_pre(r: v1::Function, a: v1::Function, b: v1::Function, m: Map<u64, F64>) requires is_sum(r, a, b), is_prod(r, a, b), fn_fin(a), fn_fin(b), a.function is Some { assert(false); }
}
''', 'vacuity: algebra predicates')
    asm.raw(common.FOOTER)
    return dict(
        min_items=10,
        trusted_base=common.TRUSTED_COMMON + common.T4_COLLECTIONS + [
            'T4 std contracts of the BTreeMap entry API (entry / or_default / or_insert with a prophecy-style &mut, remove) and of into_iter().map().collect() (ascending key order), helper contracts zip_zip (Iterator::zip of three slices), chain_refs, btree_into_vec2 / btreemap_collect2 (key-ordered listing of a map with pair keys), vassert_eq (assert_eq! as a precondition), axiom ax_pair_u64_cmp (lexicographic Ord of (u64,u64)) and ax_default_f64 (f64::default() == 0.0): prelude/btree_entry.rs',
            'T5: no operator leaf is assumed any more' + (' except: ' + ', '.join(names) if names else '') + '; the remaining assumptions are std helper contracts only (R31 pipeline helpers vec_refs / vec_map_collect / vec_chain / vec_once / vec_empty / vec_filter / range_map_collect / opt_into_vec: prelude/std_helpers.rs)',
            'R31: iterator pipelines (Box<dyn Iterator> built from iter / map / chain / once / empty / filter / (a..b).map) are instantiated at Vec, one helper call per adapter in evaluation order; a From impl that needs a precondition (From<Quadratic> for Polynomial: equal COO lengths) is placed as an inherent function (from_quadratic) because a trait impl cannot carry a requires clause in Verus',
            'R28: BTreeMap<Vec<u64>, f64> / BTreeMap<SortedIds, f64> replaced by the model types VMap / SMap (keys compared by content); std helpers vec_sort_unstable (sorted permutation), vec_extend_u64, vec_refs, smap_into_vec / smap_into_monomials / vmap_into_monomials (one item per entry)',
            'R25 index loop for `for term in &mut self.terms`; `.expect("Empty Function")` treated as unwrap (panic on an unset oneof: precondition of the operators)',
        ],
        assumptions=common.A1 + ['operands of Function + / * have their oneof set (the code panics otherwise: observation outside the property)'] + common.A_COO,
        not_covered=['the size of the epsilon-drop remainders (every remainder is DEFINED: the difference to the specified merge, the entries of the exact product map within epsilon, what an upcast dropped times the other operand)',
                     'the n-ary Sum / Product impls (Sum for Linear, Sum and Product for Function: folds over a generic iterator, outside the dialect) and the variable / parameter operator macros of v1_ext/decision_variable.rs and parameter.rs (one-line delegations to the Linear operators): bounded stand-in only (D15 was found there)',
                     'Display / AbsDiffEq / Arbitrary impls, as_linear / as_constant / degree / get_constant accessors'],
    )
