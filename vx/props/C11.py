"""C11 - QUBO/PUBO export reproduces the objective on every binary assignment (refusals, key canonicity, no zero entries)."""
from vx import core, v1types
from vx.props import common
from vx.units import evaluate as ev, qubo, fn_stubs, iters
from vx.units import validate as va


def types(asm):
    R = asm.rules
    out = []
    for name, deriv in (('SortedIds', 'Vec<u64>'), ('BinaryIds', 'BTreeSet<u64>')):
        s = core.load('sorted_ids.rs')
        if not core.re.search(r'pub struct %s\(%s\);' % (name, core.re.escape(deriv)), s):
            raise core.LostAnchor('newtype %s changed' % name)
        out.append('pub struct %s(pub %s);\nimpl Clone for %s { #[verifier::external_body] fn clone(&self) -> (r: Self) ensures r == *self { unimplemented!() } }\n' % (name, deriv, name))
    s = core.load('sorted_ids.rs')
    if not core.re.search(r'pub struct BinaryIdPair\(pub u64, pub u64\);', s):
        raise core.LostAnchor('BinaryIdPair changed')
    out.append('// `impl Deref for SortedIds { Target = [u64] }` is replaced by the slice methods the extracted code reaches through it (R13)\nimpl SortedIds { pub fn is_empty(&self) -> (r: bool) ensures r == (self.0.len() == 0) { self.0.len() == 0 } }\n')
    out.append('#[derive(Debug, Clone, Copy, PartialEq, Eq)]\npub struct BinaryIdPair(pub u64, pub u64);\nunsafe impl Structural for BinaryIdPair {}\n')
    out.append('''// T4: the hand-written Ord impls of BinaryIds (graded lexicographic) and the derived Ord of BinaryIdPair are total orders consistent with Eq (BTreeMap key model)
impl PartialEq for BinaryIds { #[verifier::external_body] fn eq(&self, o: &Self) -> bool { unimplemented!() } }
impl Eq for BinaryIds {}
impl PartialOrd for BinaryIds { #[verifier::external_body] fn partial_cmp(&self, o: &Self) -> Option<core::cmp::Ordering> { unimplemented!() } }
impl Ord for BinaryIds { #[verifier::external_body] fn cmp(&self, o: &Self) -> core::cmp::Ordering { unimplemented!() } }
impl PartialOrd for BinaryIdPair { #[verifier::external_body] fn partial_cmp(&self, o: &Self) -> Option<core::cmp::Ordering> { unimplemented!() } }
impl Ord for BinaryIdPair { #[verifier::external_body] fn cmp(&self, o: &Self) -> core::cmp::Ordering { unimplemented!() } }
pub broadcast axiom fn ax_binary_ids_cmp() ensures #[trigger] vstd::std_specs::btree::key_obeys_cmp_spec::<BinaryIds>();
pub broadcast axiom fn ax_binary_id_pair_cmp() ensures #[trigger] vstd::std_specs::btree::key_obeys_cmp_spec::<BinaryIdPair>();
pub open spec fn ids_sorted(s: Seq<u64>) -> bool { forall|i: int, j: int| 0 <= i <= j < s.len() ==> s[i] <= s[j] }
pub open spec fn is_binary_id(dvs: Seq<v1::DecisionVariable>, k: u64) -> bool { exists|i: int| 0 <= i < dvs.len() && (#[trigger] dvs[i]).id == k && dvs[i].kind == 1 }
''')
    asm.extracted(''.join(out), 'sorted_ids.rs newtypes (SortedIds, BinaryIds, BinaryIdPair)')


def build(asm, tier):
    asm.raw(common.HEADER)
    asm.raw('pub mod lib {\n' + common.LIB_USES)
    asm.file('prelude/f64_model.rs')
    asm.file('prelude/anyhow_model.rs')
    asm.file('prelude/std_helpers.rs')
    t, enums = v1types.v1_module(asm.rules)
    asm.extracted(t, 'ommx.v1.rs message types')
    asm.file('spec/poly_value.rs')
    asm.raw('''pub open spec fn zero_fn() -> v1::Function { v1::Function { function: Some(v1::function::Function::Constant(zero_f64())) } }
pub uninterp spec fn zero_f64() -> F64;
pub broadcast axiom fn ax_zero_f64() ensures (#[trigger] zero_f64())@ == XR::Fin(0real);
pub open spec fn ofun(i: v1::Instance) -> v1::Function { match i.objective { Some(f) => f, None => zero_fn() } }
pub open spec fn cfun(c: v1::Constraint) -> v1::Function { match c.function { Some(f) => f, None => zero_fn() } }
''')
    asm.file('spec/logenc_spec.rs')
    asm.file('spec/c12_spec.rs')
    asm.file('spec/validate_spec.rs')
    types(asm)
    for sp in iters.ITER_SPECS:
        asm.file(sp)
    asm.file('spec/qubo_spec.rs')
    asm.raw(qubo.TERMS_LEMMAS, 'the term list of the proved iterator contract sums to the objective')
    asm.raw('} // mod lib\npub mod units {\n' + common.UNITS_USES + 'use super::lib::v1::instance::Sense;\nbroadcast use super::lib::ax_zero_f64, super::lib::ax_binary_ids_cmp, super::lib::ax_binary_id_pair_cmp, super::lib::lemma_lin_ids_mem_b;\n')
    asm.raw(fn_stubs.ZERO + iters.SORT_STUB + qubo.STUBS, 'assumed callee contracts')
    for n, where in (('Function::zero', 'C02'), ('Instance::binary_ids', 'assumed (iterator filter/collect)'),
                     ('name_terms: the list the term iterator yields for a message is a function of the message (purity naming fterms)', 'assumed; everything else about the term iterators is proved here on the real code (same units as C02)'),
                     ('slice::sort_unstable + Vec::dedup (helper vec_sort_dedup)', 'std contract')):
        asm.stubs.append(dict(unit=n, proved_in=where))
    for u in iters.iterator_units() + [va.linear_used_ids(), va.quadratic_used_ids(), va.polynomial_used_ids(), va.function_used_ids(), ev.instance_objective(), qubo.binary_ids_from_sorted()] + qubo.binary_id_pair_try_from() + [qubo.as_pubo_format(), qubo.as_qubo_format()]:
        asm.unit(u)
    asm.raw('} // mod units\n')
    asm.guard(common.guard_fn('c11', 'broadcast use ax_zero_f64, ax_binary_ids_cmp, ax_binary_id_pair_cmp;', uses='use super::lib::*;'), 'vacuity: axioms')
    asm.guard('''pub mod guard_c11b { use vstd::prelude::*; use super::lib::*;
proof fn vacuity_pre(i: v1::Instance) requires i.constraints.len() == 0, i.sense == 1, forall|k: u64| #![trigger fn_used(ofun(i)).contains(k)] fn_used(ofun(i)).contains(k) ==> is_binary_id(i.decision_variables@, k), fn_used(ofun(i)).contains(3) { assert(false); }
}
''', 'vacuity: acceptance conditions')
    asm.guard('''pub mod guard_c11c { use vstd::prelude::*; use super::lib::*;
proof fn vacuity_axioms(f: v1::Function, x: Map<u64, F64>, a: BinaryIds, b: BinaryIds, ids: Seq<u64>)
    requires fn_fin(f), fn_coo_ok(f), fn_titems_ok(fterms(f), f), fterms(f).len() > 1, q_terms_ok(fterms(f), fterms(f).len() as int), forall|j: int| 0 <= j < fterms(f).len() ==> binary_on(x, (#[trigger] fterms(f)[j]).0.0@), a.0@ == b.0@, ids.len() > 2
{ broadcast use ax_bkey, ax_binary_ids_ext, ax_zero_f64; lemma_fterms_sum(f, x); lemma_qubo_objective(f, x); lemma_pubo_objective(f, x); lemma_qubo_value(fterms(f), fterms(f).len() as int, x); lemma_pubo_value(fterms(f), fterms(f).len() as int, x); assert(bkey(ids).0@ == ids.to_set()); assert(false); }
}
''', 'vacuity: term-list / key axioms and the premises of the value lemmas')
    asm.raw(common.FOOTER)
    return dict(
        min_items=6,
        trusted_base=common.TRUSTED_COMMON + common.T4_COLLECTIONS + [
            'T5 ASSUMED callee contracts: Instance::binary_ids, Function::used_decision_variable_ids, BinaryIdPair::try_from (slice patterns are outside Verus)',
            'T4: BTreeMap::entry(k).and_modify(|v| *v += c).or_insert(c) as the helper btreemap_add_or_insert; BinaryIds / BinaryIdPair obey the BTreeMap key model; a BinaryIds value is determined by the set it holds (ax_binary_ids_ext, ax_bkey)',
            'T5 ASSUMED (purity naming only): the term list of &Function is a function of the message (fterms); that its terms sum to the polynomial, are finite, sorted and over the ids of the function is PROVED on the real iterators (lemma_fterms_sum replaces the former axiom)',
            'R31: iterator pipelines instantiated at Vec (std helper contracts vec_refs / vec_map_collect / vec_chain / vec_once / vec_empty / vec_filter / range_map_collect / opt_into_vec); slice::sort_unstable as vec_sort_unstable',
        ],
        assumptions=common.A1 + common.A_COO,
        not_covered=['the size of the explicit remainders qrem / prem (terms skipped or entries removed because numerically zero)'],
    )
