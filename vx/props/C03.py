"""C03 - Partial evaluation commutes with evaluation (functions, constraints, instances)."""
from vx import core, v1types
from vx.props import common
from vx.units.algebra import PMERGE_STUBS
from vx.units import evaluate as ev

STUBS = '''// ---- assumed helper contract ----
// the loop `for d in self.decision_variable_dependency.values_mut() { used.append(&mut d.partial_evaluate(state)?) }`:
// HashMap::values_mut (iteration over &mut values) is outside Verus; declared substitution by this helper (T5)
#[verifier::external_body]
pub fn pe_dependency_values(deps: &mut HashMap<u64, Function>, state: &State, used: &mut BTreeSet<u64>) -> (r: Result<(), VErr>)
    ensures r is Ok ==> (forall|k: u64| #[trigger] final(deps)@.contains_key(k) <==> old(deps)@.contains_key(k))
        && (forall|k: u64| old(deps)@.contains_key(k) ==> pe(old(deps)@[k], #[trigger] final(deps)@[k], state.entries@))
        && (forall|k: u64| #[trigger] final(used)@.contains(k) ==> old(used)@.contains(k) || state.entries@.contains_key(k)),
{ unimplemented!() }
'''


def build(asm, tier):
    asm.raw(common.HEADER)
    asm.raw('pub mod lib {\n' + common.LIB_USES)
    asm.file('prelude/f64_model.rs')
    asm.file('prelude/anyhow_model.rs')
    asm.file('prelude/std_helpers.rs')
    t, enums = v1types.v1_module(asm.rules)
    asm.extracted(t, 'ommx.v1.rs message types')
    asm.file('spec/poly_value.rs')
    asm.raw('''pub open spec fn ec_value_ok(f: v1::Function, st: Map<u64, F64>, v: F64) -> bool {
    (fn_fin(f) && state_fin(st) ==> v@ == XR::Fin(fn_val(f, st)))
    && (f.function is None ==> v@ == XR::Fin(0real))
    && (f.function is Some && f.function->Some_0 is Constant ==> v == f.function->Some_0->Constant_0)
}
''')
    asm.file('spec/dep_spec.rs')
    asm.file('prelude/btree_entry.rs')
    asm.file('spec/merge_spec.rs')
    asm.file('spec/kmerge_spec.rs')
    asm.file('prelude/vmap_model.rs')
    asm.file('spec/qpe_spec.rs')
    asm.file('spec/padd_spec.rs')
    asm.file('spec/ppe_spec.rs')
    asm.file('spec/pe_spec.rs')
    asm.raw('} // mod lib\npub mod units {\n' + common.UNITS_USES + 'broadcast use super::lib::lemma_swap_removed_sum, super::lib::lemma_swap_removed_ids, super::lib::ax_default_f64;\n')
    asm.raw(STUBS + ev.QPE_HELPERS + ev.linear_new_stub() + PMERGE_STUBS, 'assumed callee contracts')
    asm.stubs.append(dict(unit='Linear::new', proved_in='C02 / C12 (same contract text: the header of the verified unit)'))
    asm.stubs.append(dict(unit='HashMap::values_mut loop of Instance::partial_evaluate', proved_in=''))
    for u in (ev.linear_partial_evaluate(), ev.quadratic_partial_evaluate(), ev.polynomial_partial_evaluate(), ev.function_partial_evaluate(), ev.constraint_partial_evaluate(),
              ev.removed_constraint_partial_evaluate(), ev.instance_partial_evaluate()):
        asm.unit(u)
    asm.file('spec/c03_lemmas.rs')
    asm.raw('} // mod units\n')
    asm.guard(common.guard_fn('c03', '', uses='use super::lib::*;'), 'vacuity: prelude')
    asm.guard('''pub mod guard_c03b { use vstd::prelude::*; use super::lib::*;
proof fn vacuity_pre(o: v1::Function, n: v1::Function, st: Map<u64, F64>, u: Set<u64>, m: Map<u64, F64>)
    requires pe_rel(o, n, st, u), fn_fin(o), state_fin(st), agree(st, m), st.contains_key(1), fn_ids(o).contains(1) { assert(false); }
}
''', 'vacuity: pe_rel')
    asm.raw(common.FOOTER)
    return dict(
        min_items=8,
        trusted_base=common.TRUSTED_COMMON + common.T4_COLLECTIONS + [
            'T5 ASSUMED callee contracts (not verified): the HashMap::values_mut loop over dependency functions; Linear::new (verified in C02 / C12)',
            'R28: BTreeMap<Vec<u64>, f64> replaced by the model type VMap (prelude/vmap_model.rs: keys compared by content; new / entry().or_default() / remove; listing helper vmap_into_monomials)',
            'T4 std contracts of the BTreeMap entry API (prelude/btree_entry.rs) and the helpers of Quadratic::partial_evaluate: opt_linear_constant (Option::map_or), opt_linear_terms (Option::iter().flat_map), btree_into_pairs (BTreeMap::into_iter in key order); Vec::swap_remove (vstd)',
            'R25: `for x in &mut vec { B }` rewritten to an index loop with `let x = &mut vec[i]; B` (body unchanged)',
        ],
        assumptions=common.A1,
        not_covered=['size of the epsilon-dropped remainders (they are defined: Quadratic - the entries of the exact linear part with |v| <= EPSILON; Polynomial - the difference to the specified merge)'],
    )
