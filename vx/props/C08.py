"""C08 - Validation accepts exactly the well-formed instances; typed view keeps content."""
from vx import core, v1types
from vx.props import common
from vx.units import validate as va, evaluate as ev, fn_stubs, typed_parse as tp, typed_types, bound
from vx.props import C05


def build(asm, tier):
    asm.raw(common.HEADER)
    asm.raw('pub mod lib {\n' + common.LIB_USES)
    asm.file('prelude/f64_model.rs')
    asm.file('prelude/anyhow_model.rs')
    asm.file('prelude/std_helpers.rs')
    t, enums = v1types.v1_module(asm.rules)
    asm.extracted(t, 'ommx.v1.rs message types')
    asm.file('spec/poly_value.rs')
    asm.raw('''pub open spec fn zero_fn() -> v1::Function { v1::Function { function: Some(v1::function::Function::Constant(zero_f64())) } }
pub uninterp spec fn zero_f64() -> F64;
pub broadcast axiom fn ax_zero_f64() ensures (#[trigger] zero_f64())@ == XR::Fin(0real);
pub open spec fn ofun(i: v1::Instance) -> v1::Function { match i.objective { Some(f) => f, None => zero_fn() } }
pub open spec fn cfun(c: v1::Constraint) -> v1::Function { match c.function { Some(f) => f, None => zero_fn() } }
''')
    asm.file('spec/logenc_spec.rs')
    asm.file('spec/c12_spec.rs')
    for sp in ('spec/merge_spec.rs', 'spec/kmerge_spec.rs', 'spec/padd_spec.rs'):
        asm.file(sp)      # id-membership lemmas of quadratic / polynomial id sets
    asm.file('spec/validate_spec.rs')
    # ---- part B: typed layer ----
    asm.raw(common.ZERO_TRAIT)
    bound.types(asm)
    C05.newtypes(asm)
    typed_types.emit(asm)
    asm.file('spec/bound_spec.rs')
    asm.raw('''// bounds of decision variables: unset = unbounded, [0,1] for binaries (kind code 1)
pub open spec fn dv_lower(v: v1::DecisionVariable) -> XR { match v.bound { Some(b) => b.lower@, None => if v.kind == 1 { XR::Fin(0real) } else { XR::NegInf } } }
pub open spec fn dv_upper(v: v1::DecisionVariable) -> XR { match v.bound { Some(b) => b.upper@, None => if v.kind == 1 { XR::Fin(1real) } else { XR::PosInf } } }
pub open spec fn dv_bound_ok(v: v1::DecisionVariable) -> bool { inv(dv_lower(v), dv_upper(v)) }
''')
    asm.file('spec/parse_spec.rs')
    asm.raw('} // mod lib\npub mod units {\n' + common.UNITS_USES + 'broadcast use super::lib::ax_zero_f64, super::lib::lemma_lin_ids_mem_b, super::lib::lemma_dv_ids_mem_b;\n')
    asm.raw(fn_stubs.ZERO + va.USED_STUBS, 'assumed callee contracts')
    asm.stubs.append(dict(unit='Function::zero', proved_in='C02'))
    for u in (ev.instance_objective(), ev.constraint_function(), va.linear_used_ids(), va.quadratic_used_ids(), va.polynomial_used_ids(), va.function_used_ids(), va.defined_ids(), va.used_decision_variable_ids(),
              va.validate_decision_variable_ids(), va.validate_constraint_ids(), va.validate(),
              va.p_objective(), va.p_used_ids(), va.p_validate_ids(), va.p_validate_constraint_ids(), va.p_validate()):
        asm.unit(u)
    asm.raw('} // mod units\n')
    asm.raw('pub mod tunits {\nuse vstd::prelude::*;\nuse vstd::std_specs::ops::*;\nuse super::lib::*;\nuse std::collections::{HashMap, HashSet, BTreeSet, BTreeMap};\nbroadcast use super::lib::ax_variable_id_key_model, super::lib::ax_constraint_id_key_model, super::lib::ax_constraint_id_cmp, super::lib::ax_variable_id_cmp;\n')
    bu = {u.name: u for u in bound.units()}
    for n in ('BoundError::check', 'Bound::new', 'Default for Bound'):
        asm.unit(bu[n])
    for u in (ev.bound_try_from_v1bound(), ev.bound_try_from_dv(), tp.parse_error_from_raw(), tp.parse_error_from_bound_error(), tp.parse_error_context(), tp.raw_parse_error_context(), tp.parse_as(),
              tp.kind_parse(), tp.equality_parse(), tp.sense_parse(), tp.function_parse(), tp.bound_parse(), tp.dv_parse(), tp.dvs_parse(),
              tp.constraint_parse(), tp.removed_constraint_parse(), tp.constraints_parse(), tp.removed_constraints_parse(),
              tp.as_constraint_id(), tp.as_variable_id(), tp.one_hot_parse(), tp.sos1_parse(), tp.hints_parse()):
        asm.unit(u)
    asm.file('spec/parse_spec2.rs')
    asm.unit(tp.instance_try_from())
    asm.raw('} // mod tunits\n')
    asm.guard(common.guard_fn('c08', 'broadcast use ax_zero_f64;', uses='use super::lib::*;'), 'vacuity: axioms')
    asm.guard('''pub mod guard_c08b { use vstd::prelude::*; use super::lib::*;
proof fn vacuity_pre(i: v1::Instance) requires dv_ids_distinct(i.decision_variables@), c_ids_distinct(i.constraints@, i.removed_constraints@), i.decision_variables.len() > 1, i.constraints.len() > 1, i.removed_constraints.len() > 1,
    inst_used(i).subset_of(dv_ids(i.decision_variables@, i.decision_variables.len() as int)) { assert(false); }
}
''', 'vacuity: well-formedness')
    asm.raw(common.FOOTER)
    return dict(
        min_items=9,
        trusted_base=common.TRUSTED_COMMON + common.T4_COLLECTIONS + [
            'T5 ASSUMED callee contract: Function::zero (proved in C02). Quadratic / Polynomial::used_decision_variable_ids are verified units of this check (R31 pipelines)',
            'T4: iter().map(C).collect::<BTreeSet>() over an annotated closure; BTreeSet::{is_subset, extend}; HashSet::insert',
        ],
        assumptions=[],
        not_covered=[],
    )
