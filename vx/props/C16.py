"""C16 - Interval bounds enclose every attainable value (bound.rs, Function::evaluate_bound)."""
from vx import core
from vx.core import Unit
from vx.props import common

from vx.units import bound


def build(asm, tier):
    asm.raw(common.HEADER)
    asm.raw('pub mod lib {\n' + common.LIB_USES)
    asm.file('prelude/f64_model.rs')
    asm.file('prelude/anyhow_model.rs')
    asm.raw(common.ZERO_TRAIT)
    bound.types(asm)
    asm.file('spec/bound_spec.rs')
    asm.raw('''pub open spec fn contains_tol(b: Bound, x: real, a: real) -> bool {
    xr_le(xr_sub(b.lower@, XR::Fin(a)), XR::Fin(x)) && xr_le(XR::Fin(x), xr_add(b.upper@, XR::Fin(a)))
}
''')
    for u in bound.units():
        asm.unit(u)
    asm.raw('} // mod lib\n')
    asm.guard(common.guard_fn('c16_axioms', 'ax_floor(0real); ax_ceil(0real); ax_floor(1real / 2real); ax_ceil(1real / 2real);', uses='use super::lib::*;'), 'vacuity: prelude axioms')
    asm.guard('''pub mod guard_req { use vstd::prelude::*; use super::lib::*;
proof fn vacuity_as_integer_bound_requires(b: Bound) requires b.wf(), exists|k: real| contains_int(b, k) { assert(false); }
proof fn vacuity_mul_f64_requires(b: Bound, c: F64) requires b.wf(), c@ is Fin, (c@ != XR::Fin(0real) || fin_wf(b)) { assert(false); }
proof fn vacuity_wf(a: Bound, b: Bound) requires a.wf(), b.wf() { assert(false); }
}
''', 'vacuity: preconditions')
    asm.raw(common.FOOTER)
    return dict(
        min_items=len(asm.units) + 20,
        trusted_base=common.TRUSTED_COMMON + [
            'T4: #[derive(PartialEq)] on Bound is field-wise IEEE equality (generated external_body impl)',
            'num::Zero is modelled by a local trait with the same two methods',
        ],
        assumptions=common.A1,
        not_covered=['Bound::arbitrary_containing / Arbitrary (test generators)', 'Display', 'as_range', 'PartialOrd<f64> for Bound (only partial_cmp is defined; Verus has no spec for the derived comparison methods)'],
    )
