"""C16 - Interval bounds enclose every attainable value (bound.rs, Function::evaluate_bound)."""
from vx import core
from vx.core import Unit
from vx.props import common

from vx import v1types
from vx.units import bound, iters
from vx.units import algebra as al
from vx.props import C05


EVAL_STUBS = '''// ---- callees of Function::evaluate_bound ----
// term iterator `&Function: IntoIterator<Item = (SortedIds, f64)>`: the real impls are verified units of this file (R31); the (ids, coefficient)
// pairs sum to the represented polynomial, coefficients are those of the message (finite when the message is), ids are ids of the function
pub proof fn lemma_tsum_kseq(t: Seq<(SortedIds, F64)>, n: int, m: Map<u64, F64>)
    requires 0 <= n <= t.len()
    ensures tsum(t, n, m) == kseq_sum(sitems(t), n, pw(m))
    decreases n
{ if n > 0 { lemma_tsum_kseq(t, n - 1, m); lemma_mono_unit(rv(t[n - 1].1), t[n - 1].0@, t[n - 1].0@.len() as int, m); } }
// glue (verified): `self.into_iter()` is the real IntoIterator for &Function (a verified unit of this file); what evaluate_bound needs of the list follows from its contract
pub fn function_terms(f: &Function) -> (r: Vec<(SortedIds, F64)>)
    requires fn_coo_ok(*f)      // IntoIterator for &Quadratic asserts equal COO lengths
    ensures forall|m: Map<u64, F64>| #![trigger tsum(r@, r.len() as int, m)] fn_val(*f, m) == tsum(r@, r.len() as int, m),
        fn_fin(*f) ==> forall|i: int| 0 <= i < r.len() ==> fin((#[trigger] r[i]).1),
        forall|i: int, j: int| 0 <= i < r.len() && 0 <= j < r[i].0@.len() ==> fn_ids(*f).contains(#[trigger] r[i].0@[j]),
        small_degree(*f) ==> forall|i: int| 0 <= i < r.len() ==> (#[trigger] r[i]).0@.len() < 256,
{
    let r = f.into_iter();
    proof {
        assert forall|m: Map<u64, F64>| #![trigger tsum(r@, r.len() as int, m)] fn_val(*f, m) == tsum(r@, r.len() as int, m) by { lemma_fn_titems_sum(r@, *f, m); lemma_tsum_kseq(r@, r.len() as int, m); }
        assert forall|i: int| 0 <= i < r.len() implies (fn_fin(*f) ==> fin((#[trigger] r[i]).1)) && (small_degree(*f) ==> r[i].0@.len() < 256)
            && (forall|j: int| 0 <= j < r[i].0@.len() ==> fn_ids(*f).contains(#[trigger] r[i].0@[j])) by {
            lemma_fn_titems_from(r@, *f, i); lemma_fn_titems_len(r@, *f, i);
        }
    }
    r
}
impl SortedIds {
    // Deref<Target=[u64]>::is_empty
    #[verifier::external_body] pub fn is_empty(&self) -> (r: bool) ensures r == (self@.len() == 0) { unimplemented!() }
    // SortedIds::chunks (itertools chunk_by over the sorted ids): (id, multiplicity) pairs whose powers multiply to the monomial
    #[verifier::external_body] pub fn chunks(&self) -> (r: Vec<(u64, usize)>)
        ensures forall|c: real, m: Map<u64, F64>| #![trigger chunk_val(c, r@, r.len() as int, m)] chunk_val(c, r@, r.len() as int, m) == mono_val(c, self@, self@.len() as int, m),
            forall|i: int| 0 <= i < r.len() ==> 1 <= (#[trigger] r[i]).1 <= self@.len() && self@.contains(r[i].0),
    { unimplemented!() }
}
'''


def evaluate_bound():
    return Unit('Function::evaluate_bound', 'v1_ext/function.rs', 'evaluate_bound', impl=r'impl Function \{', sig='pub fn evaluate_bound(&self, bounds: &Bounds) -> Bound',
                wrap=('impl Function {', '}'), anyhow=False,
                header='''#[verifier::loop_isolation(false)]
pub fn evaluate_bound(&self, bounds: &Bounds) -> (r: Bound)
    // observation: the term iterator panics on a Quadratic whose COO arrays differ in length
    requires bounds_wf(bounds@), fn_fin(*self), small_degree(*self), fn_coo_ok(*self),
    ensures r.wf(), forall|m: Map<u64, F64>| #![trigger fn_val(*self, m)] in_box(m, bounds@, fn_ids(*self)) ==> contains(r, fn_val(*self, m)),''',
                rsubs=[(r'self\.into_iter\(\)', 'function_terms(self)', 1),
                       (r'bounds\.get\(&id\.into\(\)\)\.cloned\(\)\.unwrap_or_default\(\)', 'bounds.get(&VariableID(id)).copied().unwrap_or(Bound::default())', 1)],
                loops=[dict(kind='for', cont=True, rebind='(__e.0.vclone(), __e.1)', it='it_1', inv='''invariant
                __i1 <= __h1.len(), bound.wf(),
                forall|m: Map<u64, F64>| #![trigger tsum(__h1@, __i1 as int, m)] in_box(m, bounds@, fn_ids(*self)) ==> contains(bound, tsum(__h1@, __i1 as int, m)),
            decreases __h1.len() - __i1''',
                            body_proof=''' proof { assert(ids@ == __h1@[__i1 - 1].0@ && value == __h1@[__i1 - 1].1); }'''),
                       dict(kind='for', rebind='(__e.0, __e.1)', it='it_2', inv='''invariant
                    cur.wf(), 1 <= __i1 <= __h1.len(), ids@ == __h1@[__i1 - 1].0@, value == __h1@[__i1 - 1].1,
                    forall|m: Map<u64, F64>| #![trigger chunk_val(1real, __h2@, it_2.index@ as int, m)] in_box(m, bounds@, fn_ids(*self)) ==> contains(cur, chunk_val(1real, __h2@, it_2.index@ as int, m)),''')],
                proofs=[
                    # skipped zero coefficient: the term contributes 0
                    (('before', r'continue;\s*\}\s*if ids\.is_empty'), '''proof { assert forall|m: Map<u64, F64>| #![trigger tsum(__h1@, __i1 as int, m)] in_box(m, bounds@, fn_ids(*self)) implies contains(bound, tsum(__h1@, __i1 as int, m)) by {
                    lemma_mono_zero(ids@, ids@.len() as int, m);
                    assert(contains(bound, tsum(__h1@, (__i1 - 1) as int, m)));
                } }
                '''),
                    # constant term
                    (('before', r'bound \+= value;'), 'let ghost b0 = bound;\n                '),
                    (('after', r'bound \+= value;'), '''
                proof { assert forall|m: Map<u64, F64>| #![trigger tsum(__h1@, __i1 as int, m)] in_box(m, bounds@, fn_ids(*self)) implies contains(bound, tsum(__h1@, __i1 as int, m)) by {
                    assert(contains(b0, tsum(__h1@, (__i1 - 1) as int, m)));
                    assert(mono_val(rv(value), ids@, 0, m) == rv(value));
                } }'''),
                    # one chunk: x_id^exp lies in b.pow(exp)
                    (('before', r'cur \*= b\.pow'), '''let ghost cur0 = cur; let ghost k = it_2.index@ as int;
                proof { assert(__h2@[k] == (id, exp)); assert(ids@.contains(id)); let j = choose|j: int| 0 <= j < ids@.len() && ids@[j] == id;
                    assert(fn_ids(*self).contains(__h1@[__i1 - 1].0@[j])); assert(exp < 256); assert(b.wf()); }
                '''),
                    (('after', r'cur \*= b\.pow\(exp as u8\);'), '''
                proof { assert forall|m: Map<u64, F64>| #![trigger chunk_val(1real, __h2@, k + 1, m)] in_box(m, bounds@, fn_ids(*self)) implies contains(cur, chunk_val(1real, __h2@, k + 1, m)) by {
                    assert(contains(cur0, chunk_val(1real, __h2@, k, m)));
                    assert(fn_ids(*self).contains(id));
                    assert(contains(b, sval(m, id)));
                    assert(exp as u8 as nat == exp as nat);
                } }'''),
                    # the whole monomial
                    (('before', r'bound \+= value \* cur;'), '''let ghost b0 = bound; let ghost n2 = __h2@.len() as int;
            proof { assert(fin(value)); }
            '''),
                    (('after', r'bound \+= value \* cur;'), '''
            proof { assert forall|m: Map<u64, F64>| #![trigger tsum(__h1@, __i1 as int, m)] in_box(m, bounds@, fn_ids(*self)) implies contains(bound, tsum(__h1@, __i1 as int, m)) by {
                assert(contains(b0, tsum(__h1@, (__i1 - 1) as int, m)));
                assert(contains(cur, chunk_val(1real, __h2@, n2, m)));
                lemma_chunk_scale(rv(value), __h2@, n2, m);
                assert(n2 == __h2.len() as int);
                assert(chunk_val(rv(value), __h2@, __h2.len() as int, m) == mono_val(rv(value), ids@, ids@.len() as int, m));
                assert(chunk_val(1real, __h2@, n2, m) * rv(value) == rv(value) * chunk_val(1real, __h2@, n2, m)) by(nonlinear_arith);
            } }'''),
                    (('before', r'bound\s*\}\s*$'), '''proof { assert forall|m: Map<u64, F64>| #![trigger fn_val(*self, m)] in_box(m, bounds@, fn_ids(*self)) implies contains(bound, fn_val(*self, m)) by {
                assert(fn_val(*self, m) == tsum(__h1@, __h1.len() as int, m)); } }
        ''')])


def build(asm, tier):
    asm.raw(common.HEADER)
    asm.raw('pub mod lib {\n' + common.LIB_USES)
    asm.file('prelude/f64_model.rs')
    asm.file('prelude/anyhow_model.rs')
    asm.file('prelude/std_helpers.rs')
    asm.raw(common.ZERO_TRAIT)
    t, enums = v1types.v1_module(asm.rules)
    asm.extracted(t, 'ommx.v1.rs message types')
    bound.types(asm)
    C05.newtypes(asm)
    asm.file('spec/bound_spec.rs')
    asm.file('spec/poly_value.rs')
    asm.file('spec/box_spec.rs')
    asm.extracted(al.sorted_ids_type(), 'sorted_ids.rs newtype SortedIds')
    for sp in iters.ITER_SPECS:
        asm.file(sp)
    asm.file('spec/evalbound_spec.rs')
    asm.raw('''pub open spec fn contains_tol(b: Bound, x: real, a: real) -> bool {
    xr_le(xr_sub(b.lower@, XR::Fin(a)), XR::Fin(x)) && xr_le(XR::Fin(x), xr_add(b.upper@, XR::Fin(a)))
}
''')
    for u in bound.units():
        asm.unit(u)
    asm.raw('} // mod lib\npub mod units {\n' + common.UNITS_USES + 'broadcast use super::lib::ax_variable_id_key_model;\n')
    asm.raw(iters.SORT_STUB + EVAL_STUBS, 'assumed callee contracts (SortedIds::chunks / is_empty, slice::sort_unstable) and the verified glue function_terms')
    for n in ('SortedIds::chunks', 'SortedIds::is_empty'):
        asm.stubs.append(dict(unit=n, proved_in='assumed (itertools chunk_by / Deref to a slice: outside the dialect); exercised by the bounded stand-in'))
    for u in iters.iterator_units():
        asm.unit(u)
    asm.unit(evaluate_bound())
    asm.raw('} // mod units\n')
    asm.guard(common.guard_fn('c16_axioms', 'ax_floor(0real); ax_ceil(0real); ax_floor(1real / 2real); ax_ceil(1real / 2real);', uses='use super::lib::*;'), 'vacuity: prelude axioms')
    asm.guard('''pub mod guard_req { use vstd::prelude::*; use super::lib::*;
proof fn vacuity_as_integer_bound_requires(b: Bound) requires b.wf(), exists|k: real| contains_int(b, k) { assert(false); }
proof fn vacuity_mul_f64_requires(b: Bound, c: F64) requires b.wf(), c@ is Fin, (c@ != XR::Fin(0real) || fin_wf(b)) { assert(false); }
proof fn vacuity_wf(a: Bound, b: Bound) requires a.wf(), b.wf() { assert(false); }
}
''', 'vacuity: preconditions')
    asm.raw(common.FOOTER)
    return dict(
        min_items=len(asm.units) + 20,
        trusted_base=common.TRUSTED_COMMON + [
            'T4: #[derive(PartialEq)] on Bound is field-wise IEEE equality (generated external_body impl)',
            'num::Zero is modelled by a local trait with the same two methods',
        ],
        assumptions=common.A1 + common.A_COO,
        not_covered=['Bound::arbitrary_containing / Arbitrary (test generators)', 'Display', 'as_range', 'PartialOrd<f64> for Bound (only partial_cmp is defined; Verus has no spec for the derived comparison methods)'],
    )
