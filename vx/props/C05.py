"""C05 - A Solution faithfully reports the evaluated problem."""
from vx import core, v1types
from vx.core import Unit
from vx.props import common
from vx.units import evaluate as ev, bound


def newtypes(asm):
    t = core.get_newtype('decision_variable.rs', 'VariableID', asm.rules)
    asm.extracted(t['text'] + '''pub broadcast axiom fn ax_variable_id_key_model() ensures #[trigger] vstd::std_specs::hash::obeys_key_model::<VariableID>();
pub type Bounds = HashMap<VariableID, Bound>;
''', 'struct VariableID (+ T4: derived Hash/Eq obey the key model)')


def build(asm, tier):
    asm.raw(common.HEADER)
    asm.raw('pub mod lib {\n' + common.LIB_USES)
    asm.file('prelude/f64_model.rs')
    asm.file('prelude/anyhow_model.rs')
    asm.file('prelude/std_helpers.rs')
    asm.raw(common.ZERO_TRAIT)
    t, enums = v1types.v1_module(asm.rules)
    asm.extracted(t, 'ommx.v1.rs message types')
    bound.types(asm)
    newtypes(asm)
    asm.raw('impl From<BoundError> for VErr { #[verifier::external_body] fn from(e: BoundError) -> VErr { VErr::new() } }\n')
    asm.file('spec/bound_spec.rs')
    asm.file('spec/poly_value.rs')
    asm.file('spec/solution_spec.rs')
    asm.file('spec/dep_spec.rs')
    # callee contracts proved elsewhere
    bu = {u.name: u for u in bound.units()}
    for n in ('BoundError::check', 'Bound::new', 'Default for Bound', 'Bound::lower', 'Bound::upper', 'Bound::contains', 'Bound::nearest_to_zero'):
        asm.unit(bu[n])
    asm.raw('''impl v1::Function {
    // Zero::zero for Function (v1_ext/function.rs) - body verified in C02
    #[verifier::external_body] pub fn zero() -> (r: v1::Function) ensures r == zero_fn() { unimplemented!() }
}
''', 'assumed callee contract (Function::zero)')
    asm.stubs.append(dict(unit='Function::zero', proved_in='C02'))
    asm.raw('} // mod lib\npub mod units {\n' + common.UNITS_USES + 'broadcast use super::lib::ax_zero_f64, super::lib::ax_variable_id_key_model, super::lib::lemma_out_hold_push, super::lib::lemma_dep_ok_insert, super::lib::lemma_in_keys_drop_last, super::lib::lemma_in_keys_push, super::lib::lemma_in_keys_append_empty;\nuse super::lib::v1::decision_variable::Kind;\n')
    for u in (ev.linear_evaluate(), ev.quadratic_evaluate(), ev.polynomial_evaluate(), ev.function_evaluate()):
        asm.unit(u)
    asm.unit(ev.eval_dependencies())
    for u in (ev.bound_try_from_v1bound(), ev.bound_try_from_dv(), ev.constraint_function(), ev.instance_objective(), ev.is_feasible(),
              ev.get_bounds(), ev.check_bound(), ev.constraint_evaluate(), ev.removed_constraint_evaluate(), ev.instance_evaluate()):
        asm.unit(u)
    asm.raw('} // mod units\n')
    asm.guard(common.guard_fn('c05', 'broadcast use ax_zero_f64, ax_variable_id_key_model; ax_floor(0real); ax_ceil(0real);', uses='use super::lib::*;'), 'vacuity: axioms')
    asm.guard('''pub mod guard_c05b { use vstd::prelude::*; use super::lib::*;
proof fn vacuity_pre(i: v1::Instance, st: Map<u64, F64>) requires
    forall|k: int| 0 <= k < i.decision_variables.len() ==> dv_bound_ok(#[trigger] i.decision_variables[k]),
    state_in_bounds(i.decision_variables@, st, XR::Fin(1real / 10000000real)), fn_present(ofun(i), st), i.decision_variables.len() > 0
{ assert(false); }
}
''', 'vacuity: acceptance conditions')
    asm.raw(common.FOOTER)
    return dict(
        min_items=12,
        trusted_base=common.TRUSTED_COMMON + common.T4_COLLECTIONS + [
            'T4: HashMap::iter() yields each entry exactly once in SOME order (helper hashmap_iter_collect, order universally quantified)',
            'T4: derived Hash/Eq of VariableID obey the key model; derive_more From/Deref replaced by the one-line impls they stand for',
            'T4: prost accessors equality()/kind(): code -> variant, unknown -> Unspecified; Enum::X.into() = its code',
            'T4: generated structural Clone/Default for prost messages',
            'declared substitution: `if let HashMapEntry::Vacant(e) = m.entry(k) { .. e.insert(v) }` -> `if !m.contains_key(&k) { .. m.insert(k, v) }`',
            'callee contract proved in another file: Function::zero (C02)',
            'T4: itertools::multizip = element-wise triples up to the shortest length (helper zip3)',
        ],
        assumptions=common.A1 + ['evaluated value of a constraint is characterised as in C01 (finite coefficients/values => exact real value)'],
        not_covered=['bit-precise behaviour at the 1e-6/1e-7 thresholds (A1: ideal arithmetic); the bounded stand-in runs the real f64 code but leaves the zone between the two thresholds undecided'],
    )
