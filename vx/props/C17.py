"""C17 - MPS files are read as the problem they describe: conversion kernels only (text layer not applicable)."""
from vx import core, v1types
from vx.props import common
from vx.units import mps


def types(asm):
    t = core.get_type('mps/parser.rs', 'struct', 'Mps', asm.rules, keep_derives=())
    os_ = core.get_type('mps/parser.rs', 'enum', 'ObjSense', asm.rules, keep_derives=('Clone', 'Copy', 'PartialEq', 'Eq'))
    s = core.load('mps/parser.rs')
    for n in ('RowName', 'ColumnName'):
        if not core.re.search(r'pub struct %s\(pub String\);' % n, s):
            raise core.LostAnchor('newtype %s changed' % n)
    asm.extracted('''// RowName / ColumnName: newtypes over String used as HashMap / HashSet keys; abstracted as opaque names with decidable equality (T4 key model)
#[derive(Clone, PartialEq, Eq, Hash)]
pub struct RowName(pub String);
#[derive(Clone, PartialEq, Eq, Hash)]
pub struct ColumnName(pub String);
pub broadcast axiom fn ax_row_name_key_model() ensures #[trigger] vstd::std_specs::hash::obeys_key_model::<RowName>();
pub broadcast axiom fn ax_column_name_key_model() ensures #[trigger] vstd::std_specs::hash::obeys_key_model::<ColumnName>();
''' + os_['text'] + t['text'] + '''
// convert_terms: HashMap iteration mapped through name_id_map (T5 assumed): SOME enumeration of the row's (column, coefficient) entries
pub uninterp spec fn terms_of(c: Map<ColumnName, F64>, ids: Map<ColumnName, u64>) -> Seq<v1::linear::Term>;
#[verifier::external_body]
pub fn convert_terms(columns: &HashMap<ColumnName, F64>, name_id_map: &HashMap<ColumnName, u64>) -> (r: Vec<v1::linear::Term>)
    ensures r@ == terms_of(columns@, name_id_map@)
{ unimplemented!() }
''', 'mps types (Mps, ObjSense, RowName, ColumnName) + convert_terms contract')


def build(asm, tier):
    asm.raw(common.HEADER)
    asm.raw('pub mod lib {\n' + common.LIB_USES)
    asm.file('prelude/f64_model.rs')
    asm.file('prelude/anyhow_model.rs')
    asm.file('prelude/std_helpers.rs')
    t, enums = v1types.v1_module(asm.rules)
    asm.extracted(t, 'ommx.v1.rs message types')
    types(asm)
    asm.raw('} // mod lib\npub mod units {\nuse vstd::prelude::*;\nuse vstd::std_specs::ops::*;\nuse super::lib::*;\nuse std::collections::{HashMap, HashSet, BTreeSet, BTreeMap};\nbroadcast use super::lib::ax_row_name_key_model, super::lib::ax_column_name_key_model;\n')
    for u in (mps.get_dvar_bound(), mps.get_dvar_kind(), mps.convert_sense(), mps.convert_inequality(), mps.convert_objective()):
        asm.unit(u)
    asm.raw('} // mod units\n')
    asm.guard(common.guard_fn('c17', 'broadcast use ax_row_name_key_model, ax_column_name_key_model;', uses='use super::lib::*;'), 'vacuity: axioms')
    asm.guard('''pub mod guard_c17b { use vstd::prelude::*; use super::lib::*;
proof fn vacuity_pre(l: Map<ColumnName, F64>, u: Map<ColumnName, F64>, n: ColumnName) requires !l.contains_key(n), u.contains_key(n), xr_lt(u[n]@, XR::Fin(0real)) { assert(false); }
}
''', 'vacuity: bound cases')
    asm.raw(common.FOOTER)
    return dict(
        min_items=5,
        trusted_base=common.TRUSTED_COMMON + common.T4_COLLECTIONS + [
            'T4: RowName / ColumnName obey the HashMap/HashSet key model',
            'T5 ASSUMED: convert_terms (HashMap iteration through name_id_map)',
        ],
        assumptions=common.A1,
        not_covered=['the line-oriented text layer (ROWS/COLUMNS/RHS/RANGES/BOUNDS reading, markers, bound keywords FR MI PL BV LI UI, numbers, OBJSENSE, gzip, error reporting): str code outside Verus and CBMC',
                     'convert_dvars / convert_constraints (HashSet/HashMap iteration with enumerate and OMMX_VAR_<n> id recovery)',
                     'the two defects of the text layer found by the bounded stand-in (D5b: FR left the lower bound 0; D5d: a BV column kept the bound [0,+inf)) lie in this uncovered part; both are repaired in /repo (known_findings.txt) and stay covered by the stand-in only'],
    )
