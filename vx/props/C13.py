"""C13 - Integer-slack conversions preserve the feasible set."""
from vx import core, v1types
from vx.props import common, C05
from vx.units import instance_ops as io, evaluate as ev, bound


from vx.units import validate as va

def build(asm, tier):
    asm.raw(common.HEADER)
    asm.raw('pub mod lib {\n' + common.LIB_USES)
    asm.file('prelude/f64_model.rs')
    asm.file('prelude/anyhow_model.rs')
    asm.file('prelude/std_helpers.rs')
    asm.raw(common.ZERO_TRAIT)
    t, enums = v1types.v1_module(asm.rules)
    asm.extracted(t, 'ommx.v1.rs message types')
    bound.types(asm)
    C05.newtypes(asm)
    asm.raw('impl From<BoundError> for VErr { #[verifier::external_body] fn from(e: BoundError) -> VErr { VErr::new() } }\n')
    asm.file('spec/bound_spec.rs')
    asm.file('spec/poly_value.rs')
    asm.file('spec/solution_spec.rs')
    asm.file('spec/logenc_spec.rs')
    asm.file('spec/c12_spec.rs')
    asm.file('spec/constraint_multiset.rs')
    asm.file('spec/box_spec.rs')
    asm.file('spec/slack_spec.rs')
    bu = {u.name: u for u in bound.units()}
    for n in ('BoundError::check', 'Bound::new', 'Default for Bound', 'Bound::lower', 'Bound::upper', 'Bound::width'):
        asm.unit(bu[n])
    asm.raw('} // mod lib\npub mod units {\n' + common.UNITS_USES + 'broadcast use super::lib::ax_zero_f64, super::lib::ax_variable_id_key_model;\nuse super::lib::v1::decision_variable::Kind;\n')
    asm.raw(io.SLACK_STUBS, 'assumed callee contracts')
    for n, where in (('Instance::get_kinds', 'assumed (iterator collect into a HashMap)'),
                     ('Function::used_decision_variable_ids', 'C08 (all four kinds and the dispatch)'),
                     ('Function::content_factor', 'assumed (gcd/lcm over f64 mantissas: not within reach); exercised by the bounded stand-in'),
                     ('Function::evaluate_bound', 'C16 (same preconditions: bounds_wf, small_degree, fn_coo_ok)'),
                     ('f64 * Function', 'C02 (value and ids); the clause small_degree(rhs) ==> small_degree(r) is assumed'),
                     ('Function + Linear', 'C02'),
                     ('Bound::as_integer_bound (A3: returns)', 'C16 (result); that it returns is assumption A3')):
        asm.stubs.append(dict(unit=n, proved_in=where))
    for u in (ev.bound_try_from_v1bound(), ev.get_bounds(), io.v1bound_from_bound(), io.linear_single_term(), io.relax_constraint(), io.convert_inequality(), io.add_integer_slack()):
        asm.unit(u)
    asm.raw('} // mod units\n')
    # Instance::defined_ids in a module of its own: the broadcast membership lemma stays out of the other units' contexts
    asm.raw('pub mod dunits {\n' + common.UNITS_USES + 'broadcast use super::lib::lemma_dv_ids_mem_b;\n')
    asm.unit(va.defined_ids())
    asm.raw('} // mod dunits\n')
    asm.guard(common.guard_fn('c13', 'broadcast use ax_zero_f64, ax_variable_id_key_model; ax_int_consts(); ax_int_add(1real, 1real); ax_floor(1real / 2real); ax_discrete(0real, 1real);', uses='use super::lib::*;'), 'vacuity: axioms')
    asm.guard('''pub mod guard_c13b { use vstd::prelude::*; use super::lib::*;
proof fn vacuity_pre(v: real, a: real, l: real) requires a > 0real, is_intr(a * v), l <= a * v, v < 0real { assert(false); }
}
''', 'vacuity: lemma premises')
    asm.raw(common.FOOTER)
    return dict(
        composes_with={'C02': '*'},      # the Function operators used here are the contracts proved in C02
        min_items=12,
        trusted_base=common.TRUSTED_COMMON + common.T4_COLLECTIONS + [
            'T5 ASSUMED callee contracts: Function::content_factor (integrality of a*f on integer points), Function::evaluate_bound (enclosure), get_kinds, used_decision_variable_ids, f64*Function and Function+Linear (pure, value up to an explicit remainder)',
            'A3: Bound::as_integer_bound returns (the rounded interval contains an integer); it panics otherwise - observation outside the property',
            'T4: Vec::iter_mut().find(C) as a prophecy-style helper; u64 as f64 exact',
        ],
        assumptions=common.A1 + common.A_COO + ['precondition (observation): monomials of the constraint function have degree < 256 (Function::evaluate_bound casts multiplicities to u8: C16 proves the enclosure under this precondition)', 'ASSUMED beyond the C02 contract: f64 * Function keeps small_degree (a scalar multiple keeps or empties the id lists of the monomials)'],
        not_covered=[],
    )
