// ===== spec/validate_spec.rs : vocabulary for C08 (validation) =====
// ids "used" by a function as validation sees them (for quadratics: every row and column entry)
pub open spec fn quadratic_used(q: v1::Quadratic) -> Set<u64> {
    (match q.linear { Some(l) => linear_ids(l), None => Set::empty() }).union(q.rows@.to_set()).union(q.columns@.to_set())
}
pub open spec fn fn_used(f: v1::Function) -> Set<u64> {
    match f.function {
        Some(v1::function::Function::Linear(l)) => linear_ids(l),
        Some(v1::function::Function::Quadratic(q)) => quadratic_used(q),
        Some(v1::function::Function::Polynomial(p)) => polynomial_ids(p),
        _ => Set::empty(),
    }
}
pub open spec fn cs_used(cs: Seq<v1::Constraint>, n: int) -> Set<u64> decreases n {
    if n <= 0 { Set::empty() } else { cs_used(cs, n - 1).union(fn_used(cfun(cs[n - 1]))) }
}
pub open spec fn rcs_used(rs: Seq<v1::RemovedConstraint>, n: int) -> Set<u64> decreases n {
    if n <= 0 { Set::empty() } else { match rs[n - 1].constraint { Some(c) => rcs_used(rs, n - 1).union(fn_used(cfun(c))), None => rcs_used(rs, n - 1) } }
}
pub open spec fn inst_used(i: v1::Instance) -> Set<u64> {
    fn_used(ofun(i)).union(cs_used(i.constraints@, i.constraints.len() as int)).union(rcs_used(i.removed_constraints@, i.removed_constraints.len() as int))
}
pub open spec fn dv_ids_distinct(dvs: Seq<v1::DecisionVariable>) -> bool { forall|i: int, j: int| 0 <= i < j < dvs.len() ==> (#[trigger] dvs[i]).id != (#[trigger] dvs[j]).id }
// constraint ids of active ++ removed-with-a-constraint, as one sequence of optional ids
pub open spec fn rc_id(r: v1::RemovedConstraint) -> Option<u64> { match r.constraint { Some(c) => Some(c.id), None => None } }
pub open spec fn c_ids_distinct(cs: Seq<v1::Constraint>, rs: Seq<v1::RemovedConstraint>) -> bool {
    &&& forall|i: int, j: int| 0 <= i < j < cs.len() ==> (#[trigger] cs[i]).id != (#[trigger] cs[j]).id
    &&& forall|i: int, j: int| 0 <= i < j < rs.len() && rc_id(rs[i]) is Some ==> rc_id(#[trigger] rs[i]) != rc_id(#[trigger] rs[j])
    &&& forall|i: int, j: int| 0 <= i < cs.len() && 0 <= j < rs.len() ==> Some((#[trigger] cs[i]).id) != rc_id(#[trigger] rs[j])
}
pub open spec fn c_id_set(cs: Seq<v1::Constraint>, n: int) -> Set<u64> decreases n { if n <= 0 { Set::empty() } else { c_id_set(cs, n - 1).insert(cs[n - 1].id) } }
pub open spec fn rc_id_set(rs: Seq<v1::RemovedConstraint>, n: int) -> Set<u64> decreases n {
    if n <= 0 { Set::empty() } else { match rs[n - 1].constraint { Some(c) => rc_id_set(rs, n - 1).insert(c.id), None => rc_id_set(rs, n - 1) } }
}
pub proof fn lemma_c_id_set_mem(cs: Seq<v1::Constraint>, n: int, k: u64)
    requires 0 <= n <= cs.len()
    ensures c_id_set(cs, n).contains(k) <==> exists|i: int| 0 <= i < n && (#[trigger] cs[i]).id == k
    decreases n
{
    if n > 0 {
        lemma_c_id_set_mem(cs, n - 1, k);
        if c_id_set(cs, n).contains(k) { if cs[n - 1].id == k { assert(cs[n - 1].id == k); } else { let i = choose|i: int| 0 <= i < n - 1 && (#[trigger] cs[i]).id == k; assert(0 <= i < n && cs[i].id == k); } }
        if exists|i: int| 0 <= i < n && (#[trigger] cs[i]).id == k { let i = choose|i: int| 0 <= i < n && (#[trigger] cs[i]).id == k; if i < n - 1 { assert(0 <= i < n - 1 && cs[i].id == k); } }
    }
}
pub proof fn lemma_rc_id_set_mem(rs: Seq<v1::RemovedConstraint>, n: int, k: u64)
    requires 0 <= n <= rs.len()
    ensures rc_id_set(rs, n).contains(k) <==> exists|i: int| 0 <= i < n && rc_id(#[trigger] rs[i]) == Some(k)
    decreases n
{
    if n > 0 {
        lemma_rc_id_set_mem(rs, n - 1, k);
        if rc_id_set(rs, n).contains(k) { if rc_id(rs[n - 1]) == Some(k) { assert(rc_id(rs[n - 1]) == Some(k)); } else { let i = choose|i: int| 0 <= i < n - 1 && rc_id(#[trigger] rs[i]) == Some(k); assert(0 <= i < n && rc_id(rs[i]) == Some(k)); } }
        if exists|i: int| 0 <= i < n && rc_id(#[trigger] rs[i]) == Some(k) { let i = choose|i: int| 0 <= i < n && rc_id(#[trigger] rs[i]) == Some(k); if i < n - 1 { assert(0 <= i < n - 1 && rc_id(rs[i]) == Some(k)); } }
    }
}
pub broadcast proof fn lemma_lin_ids_mem_b(t: Seq<v1::linear::Term>, n: int, k: u64)
    requires 0 <= n <= t.len()
    ensures #[trigger] lin_ids(t, n).contains(k) <==> exists|i: int| 0 <= i < n && (#[trigger] t[i]).id == k
{ lemma_lin_ids_mem(t, n, k); }
// lemma_dv_ids_mem_b (broadcast form of lemma_dv_ids_mem) lives next to dv_ids in c12_spec.rs
// ---- parametric instances: decision-variable and parameter ids jointly unique, covering objective + active constraints ----
pub open spec fn p_ids(ps: Seq<v1::Parameter>, n: int) -> Set<u64> decreases n { if n <= 0 { Set::empty() } else { p_ids(ps, n - 1).insert(ps[n - 1].id) } }
pub proof fn lemma_p_ids_mem(t: Seq<v1::Parameter>, n: int, k: u64)
    requires 0 <= n <= t.len()
    ensures p_ids(t, n).contains(k) <==> exists|i: int| 0 <= i < n && (#[trigger] t[i]).id == k
    decreases n
{
    if n > 0 {
        lemma_p_ids_mem(t, n - 1, k);
        if p_ids(t, n).contains(k) { if t[n - 1].id == k { assert(t[n - 1].id == k); } else { let i = choose|i: int| 0 <= i < n - 1 && (#[trigger] t[i]).id == k; assert(0 <= i < n && t[i].id == k); } }
        if exists|i: int| 0 <= i < n && (#[trigger] t[i]).id == k { let i = choose|i: int| 0 <= i < n && (#[trigger] t[i]).id == k; if i < n - 1 { assert(0 <= i < n - 1 && t[i].id == k); } }
    }
}
pub open spec fn pfun(i: v1::ParametricInstance) -> v1::Function { match i.objective { Some(f) => f, None => v1::Function { function: None } } }
pub open spec fn pinst_used(i: v1::ParametricInstance) -> Set<u64> { fn_used(pfun(i)).union(cs_used(i.constraints@, i.constraints.len() as int)) }
pub open spec fn joint_ids_distinct(dvs: Seq<v1::DecisionVariable>, ps: Seq<v1::Parameter>) -> bool {
    &&& dv_ids_distinct(dvs)
    &&& forall|i: int, j: int| 0 <= i < j < ps.len() ==> (#[trigger] ps[i]).id != (#[trigger] ps[j]).id
    &&& forall|i: int, j: int| 0 <= i < dvs.len() && 0 <= j < ps.len() ==> (#[trigger] dvs[i]).id != (#[trigger] ps[j]).id
}
