// ===== spec/poly_value.rs : the mathematical value of a function message (hand-written ghost code) =====
// All sums recurse on an index, and are stated on the message's own term list, so they cover every
// wire-legal representation (unsorted, repeated, zero-coefficient terms, any triangle).
pub open spec fn rv(x: F64) -> real { match x@ { XR::Fin(v) => v, _ => 0real } }
pub open spec fn fin(x: F64) -> bool { x@ is Fin }
pub open spec fn state_fin(m: Map<u64, F64>) -> bool { forall|k: u64| m.contains_key(k) ==> fin(#[trigger] m[k]) }
pub open spec fn sval(m: Map<u64, F64>, k: u64) -> real { rv(m[k]) }

// ---- linear ----
pub open spec fn terms_fin(t: Seq<v1::linear::Term>) -> bool { forall|i: int| 0 <= i < t.len() ==> fin((#[trigger] t[i]).coefficient) }
pub open spec fn lin_sum(t: Seq<v1::linear::Term>, n: int, m: Map<u64, F64>) -> real decreases n {
    if n <= 0 { 0real } else { lin_sum(t, n - 1, m) + rv(t[n - 1].coefficient) * sval(m, t[n - 1].id) }
}
pub open spec fn lin_ids(t: Seq<v1::linear::Term>, n: int) -> Set<u64> decreases n {
    if n <= 0 { Set::empty() } else { lin_ids(t, n - 1).insert(t[n - 1].id) }
}
pub open spec fn ids_present(t: Seq<v1::linear::Term>, n: int, m: Map<u64, F64>) -> bool {
    forall|i: int| 0 <= i < n ==> m.contains_key((#[trigger] t[i]).id)
}
pub open spec fn lin_all(t: Seq<v1::linear::Term>, m: Map<u64, F64>) -> real { lin_sum(t, t.len() as int, m) }
pub open spec fn lin_total(c: F64, t: Seq<v1::linear::Term>, m: Map<u64, F64>) -> real { rv(c) + lin_all(t, m) }
pub open spec fn term_val(e: v1::linear::Term, m: Map<u64, F64>) -> real { rv(e.coefficient) * sval(m, e.id) }
pub open spec fn linear_fin(l: v1::Linear) -> bool { terms_fin(l.terms@) && fin(l.constant) }
pub open spec fn linear_val(l: v1::Linear, m: Map<u64, F64>) -> real { rv(l.constant) + lin_all(l.terms@, m) }
pub open spec fn linear_ids(l: v1::Linear) -> Set<u64> { lin_ids(l.terms@, l.terms.len() as int) }
pub open spec fn linear_present(l: v1::Linear, m: Map<u64, F64>) -> bool { ids_present(l.terms@, l.terms.len() as int, m) }

// ---- quadratic (COO triplets; shortest-length semantics of multizip) ----
pub open spec fn min3(a: int, b: int, c: int) -> int { if a <= b && a <= c { a } else if b <= c { b } else { c } }
pub open spec fn quad_n(q: v1::Quadratic) -> int { min3(q.rows.len() as int, q.columns.len() as int, q.values.len() as int) }
pub open spec fn quad_sum(r: Seq<u64>, c: Seq<u64>, v: Seq<F64>, n: int, m: Map<u64, F64>) -> real decreases n {
    if n <= 0 { 0real } else { quad_sum(r, c, v, n - 1, m) + rv(v[n - 1]) * sval(m, r[n - 1]) * sval(m, c[n - 1]) }
}
pub open spec fn quad_ids(r: Seq<u64>, c: Seq<u64>, n: int) -> Set<u64> decreases n {
    if n <= 0 { Set::empty() } else { quad_ids(r, c, n - 1).insert(r[n - 1]).insert(c[n - 1]) }
}
pub open spec fn quad_present(r: Seq<u64>, c: Seq<u64>, n: int, m: Map<u64, F64>) -> bool {
    (forall|i: int| 0 <= i < n ==> m.contains_key(#[trigger] r[i])) && (forall|i: int| 0 <= i < n ==> m.contains_key(#[trigger] c[i]))
}
pub open spec fn vals_fin(v: Seq<F64>) -> bool { forall|i: int| 0 <= i < v.len() ==> fin(#[trigger] v[i]) }
pub open spec fn quadratic_fin(q: v1::Quadratic) -> bool { vals_fin(q.values@) && (q.linear is Some ==> linear_fin(q.linear->Some_0)) }
pub open spec fn quadratic_lin_val(q: v1::Quadratic, m: Map<u64, F64>) -> real { match q.linear { Some(l) => linear_val(l, m), None => 0real } }
pub open spec fn quadratic_val(q: v1::Quadratic, m: Map<u64, F64>) -> real {
    quadratic_lin_val(q, m) + quad_sum(q.rows@, q.columns@, q.values@, quad_n(q), m)
}
pub open spec fn quadratic_ids(q: v1::Quadratic) -> Set<u64> {
    (match q.linear { Some(l) => linear_ids(l), None => Set::empty() }).union(quad_ids(q.rows@, q.columns@, quad_n(q)))
}
pub open spec fn quadratic_present(q: v1::Quadratic, m: Map<u64, F64>) -> bool {
    (q.linear is Some ==> linear_present(q.linear->Some_0, m)) && quad_present(q.rows@, q.columns@, quad_n(q), m)
}

// ---- polynomial ----
pub open spec fn mono_val(c: real, ids: Seq<u64>, j: int, m: Map<u64, F64>) -> real decreases j {
    if j <= 0 { c } else { mono_val(c, ids, j - 1, m) * sval(m, ids[j - 1]) }
}
pub open spec fn poly_sum(t: Seq<v1::Monomial>, n: int, m: Map<u64, F64>) -> real decreases n {
    if n <= 0 { 0real } else { poly_sum(t, n - 1, m) + mono_val(rv(t[n - 1].coefficient), t[n - 1].ids@, t[n - 1].ids.len() as int, m) }
}
pub open spec fn mono_ids(ids: Seq<u64>, j: int) -> Set<u64> decreases j {
    if j <= 0 { Set::empty() } else { mono_ids(ids, j - 1).insert(ids[j - 1]) }
}
pub open spec fn poly_ids(t: Seq<v1::Monomial>, n: int) -> Set<u64> decreases n {
    if n <= 0 { Set::empty() } else { poly_ids(t, n - 1).union(mono_ids(t[n - 1].ids@, t[n - 1].ids.len() as int)) }
}
pub open spec fn poly_fin(t: Seq<v1::Monomial>) -> bool { forall|i: int| 0 <= i < t.len() ==> fin((#[trigger] t[i]).coefficient) }
pub open spec fn poly_present(t: Seq<v1::Monomial>, n: int, m: Map<u64, F64>) -> bool {
    forall|i: int, j: int| 0 <= i < n && 0 <= j < t[i].ids.len() ==> m.contains_key(#[trigger] t[i].ids[j])
}
pub open spec fn polynomial_val(p: v1::Polynomial, m: Map<u64, F64>) -> real { poly_sum(p.terms@, p.terms.len() as int, m) }
pub open spec fn polynomial_ids(p: v1::Polynomial) -> Set<u64> { poly_ids(p.terms@, p.terms.len() as int) }
pub open spec fn polynomial_present(p: v1::Polynomial, m: Map<u64, F64>) -> bool { poly_present(p.terms@, p.terms.len() as int, m) }

// ---- function (oneof; unset = the zero function) ----
pub open spec fn fn_fin(f: v1::Function) -> bool {
    match f.function {
        Some(v1::function::Function::Constant(c)) => fin(c),
        Some(v1::function::Function::Linear(l)) => linear_fin(l),
        Some(v1::function::Function::Quadratic(q)) => quadratic_fin(q),
        Some(v1::function::Function::Polynomial(p)) => poly_fin(p.terms@),
        None => true,
    }
}
pub open spec fn fn_val(f: v1::Function, m: Map<u64, F64>) -> real {
    match f.function {
        Some(v1::function::Function::Constant(c)) => rv(c),
        Some(v1::function::Function::Linear(l)) => linear_val(l, m),
        Some(v1::function::Function::Quadratic(q)) => quadratic_val(q, m),
        Some(v1::function::Function::Polynomial(p)) => polynomial_val(p, m),
        None => 0real,
    }
}
pub open spec fn fn_ids(f: v1::Function) -> Set<u64> {
    match f.function {
        Some(v1::function::Function::Constant(c)) => Set::empty(),
        Some(v1::function::Function::Linear(l)) => linear_ids(l),
        Some(v1::function::Function::Quadratic(q)) => quadratic_ids(q),
        Some(v1::function::Function::Polynomial(p)) => polynomial_ids(p),
        None => Set::empty(),
    }
}
pub open spec fn fn_present(f: v1::Function, m: Map<u64, F64>) -> bool {
    match f.function {
        Some(v1::function::Function::Constant(c)) => true,
        Some(v1::function::Function::Linear(l)) => linear_present(l, m),
        Some(v1::function::Function::Quadratic(q)) => quadratic_present(q, m),
        Some(v1::function::Function::Polynomial(p)) => polynomial_present(p, m),
        None => true,
    }
}

pub open spec fn agree(st: Map<u64, F64>, m: Map<u64, F64>) -> bool {
    forall|k: u64| st.contains_key(k) ==> m.contains_key(k) && #[trigger] m[k] == st[k]
}

pub proof fn lemma_lin_sum_ext(a: Seq<v1::linear::Term>, b: Seq<v1::linear::Term>, n: int, m: Map<u64, F64>)
    requires n <= a.len(), n <= b.len(), forall|j: int| 0 <= j < n ==> a[j] == b[j]
    ensures lin_sum(a, n, m) == lin_sum(b, n, m)
    decreases n
{ if n > 0 { lemma_lin_sum_ext(a, b, n - 1, m); } }

pub proof fn lemma_lin_sum_set(t: Seq<v1::linear::Term>, n: int, i: int, e: v1::linear::Term, m: Map<u64, F64>)
    requires 0 <= i < n <= t.len()
    ensures lin_sum(t.update(i, e), n, m) == lin_sum(t, n, m) - rv(t[i].coefficient) * sval(m, t[i].id) + rv(e.coefficient) * sval(m, e.id)
    decreases n
{
    if n - 1 > i { lemma_lin_sum_set(t, n - 1, i, e, m); }
    else { lemma_lin_sum_ext(t.update(i, e), t, n - 1, m); }
}

pub broadcast proof fn lemma_swap_removed_sum(t: Seq<v1::linear::Term>, i: int, m: Map<u64, F64>)
    requires 0 <= i < t.len()
    ensures #[trigger] lin_all(t.update(i, t.last()).drop_last(), m) == lin_all(t, m) - term_val(t[i], m)
{
    let n = t.len() as int;
    let u = t.update(i, t.last());
    if i < n - 1 {
        lemma_lin_sum_set(t, n - 1, i, t.last(), m);
        lemma_lin_sum_ext(u.drop_last(), u, n - 1, m);
    } else {
        lemma_lin_sum_ext(u.drop_last(), t, n - 1, m);
    }
}
// ids of a prefix are exactly the ids at positions < n
pub proof fn lemma_lin_ids_mem(t: Seq<v1::linear::Term>, n: int, k: u64)
    requires 0 <= n <= t.len()
    ensures lin_ids(t, n).contains(k) <==> exists|i: int| 0 <= i < n && (#[trigger] t[i]).id == k
    decreases n
{
    if n > 0 {
        lemma_lin_ids_mem(t, n - 1, k);
        if lin_ids(t, n).contains(k) {
            if t[n - 1].id == k { assert(t[n - 1].id == k); } else {
                let i = choose|i: int| 0 <= i < n - 1 && (#[trigger] t[i]).id == k;
                assert(0 <= i < n && t[i].id == k);
            }
        }
        if exists|i: int| 0 <= i < n && (#[trigger] t[i]).id == k {
            let i = choose|i: int| 0 <= i < n && (#[trigger] t[i]).id == k;
            if i < n - 1 { assert(0 <= i < n - 1 && t[i].id == k); }
        }
    }
}

// observation: Quadratic::quad_iter asserts that the COO arrays have equal lengths (it panics otherwise) - the precondition of every operator that reaches it
pub open spec fn qcoo(q: v1::Quadratic) -> bool { q.columns.len() == q.rows.len() && q.columns.len() == q.values.len() }
pub open spec fn fn_coo_ok(f: v1::Function) -> bool { match f.function { Some(v1::function::Function::Quadratic(q)) => qcoo(q), _ => true } }
// observation: Function::evaluate_bound converts the multiplicity of an id in a monomial to u8 (`as u8`): degrees of 256 and more wrap around
pub open spec fn small_degree(f: v1::Function) -> bool {
    match f.function { Some(v1::function::Function::Polynomial(p)) => forall|i: int| 0 <= i < p.terms.len() ==> (#[trigger] p.terms[i]).ids.len() < 256, _ => true }
}
