// ===== property lemmas of C14 (ghost, from the two contracts only) =====
// one successful relax: the collection active ++ removed is unchanged as a multiset, ids stay unique, the id sits in the removed list
pub proof fn lemma_relax_preserves(o: Instance, n: Instance, id: u64, reason: String, params: HashMap<String, String>)
    requires rem_wf(o.removed_constraints@),
        ({ let i = first_active(o.constraints@, id);
            &&& 0 <= i < o.constraints.len() && o.constraints[i].id == id
            &&& n.constraints@ == o.constraints@.remove(i)
            &&& n.removed_constraints@ == o.removed_constraints@.push(RemovedConstraint { constraint: Some(o.constraints[i]), removed_reason: reason, removed_reason_parameters: params }) }),
    ensures rem_wf(n.removed_constraints@), all_ms(n) =~= all_ms(o),
{
    let i = first_active(o.constraints@, id);
    let c = o.constraints[i];
    vstd::seq_lib::to_multiset_remove(o.constraints@, i);
    let rc = RemovedConstraint { constraint: Some(c), removed_reason: reason, removed_reason_parameters: params };
    assert(rem_cs(n.removed_constraints@) =~= rem_cs(o.removed_constraints@).push(c));
    vstd::seq_lib::to_multiset_build(rem_cs(o.removed_constraints@), c);
    vstd::seq_lib::to_multiset_contains(o.constraints@, c);
    assert(o.constraints@.contains(c));
}
pub proof fn lemma_restore_preserves(o: Instance, n: Instance, id: u64)
    requires rem_wf(o.removed_constraints@),
        ({ let i = first_removed(o.removed_constraints@, id);
            &&& 0 <= i < o.removed_constraints.len() && removed_has_id(o.removed_constraints[i], id)
            &&& n.removed_constraints@ == o.removed_constraints@.remove(i)
            &&& n.constraints@ == o.constraints@.push(o.removed_constraints[i].constraint->Some_0) }),
    ensures rem_wf(n.removed_constraints@), all_ms(n) =~= all_ms(o),
{
    let i = first_removed(o.removed_constraints@, id);
    let c = o.removed_constraints[i].constraint->Some_0;
    let rs = rem_cs(o.removed_constraints@);
    assert(rem_cs(n.removed_constraints@) =~= rs.remove(i));
    vstd::seq_lib::to_multiset_remove(rs, i);
    vstd::seq_lib::to_multiset_build(o.constraints@, c);
    vstd::seq_lib::to_multiset_contains(rs, c);
    assert(rs[i] == c);
    assert(rs.contains(c));
}
// id-uniqueness across both lists is a property of the multiset alone, hence invariant
pub open spec fn uniq_ms(i: Instance) -> bool {
    &&& forall|c: Constraint| all_ms(i).count(c) <= 1
    &&& forall|c1: Constraint, c2: Constraint| all_ms(i).count(c1) > 0 && all_ms(i).count(c2) > 0 && c1.id == c2.id ==> c1 == c2
}
pub open spec fn relax_post(o: Instance, n: Instance, id: u64, reason: String, params: HashMap<String, String>) -> bool {
    let i = first_active(o.constraints@, id);
    &&& 0 <= i < o.constraints.len() && o.constraints[i].id == id
    &&& n.constraints@ == o.constraints@.remove(i)
    &&& n.removed_constraints@ == o.removed_constraints@.push(RemovedConstraint { constraint: Some(o.constraints[i]), removed_reason: reason, removed_reason_parameters: params })
}
pub open spec fn restore_post(o: Instance, n: Instance, id: u64) -> bool {
    let i = first_removed(o.removed_constraints@, id);
    &&& 0 <= i < o.removed_constraints.len() && removed_has_id(o.removed_constraints[i], id)
    &&& n.removed_constraints@ == o.removed_constraints@.remove(i)
    &&& n.constraints@ == o.constraints@.push(o.removed_constraints[i].constraint->Some_0)
}
// one operation of a history: a failed call (nothing changes), a successful relax, or a successful restore
pub open spec fn step(o: Instance, n: Instance) -> bool {
    ||| n == o
    ||| exists|id: u64, reason: String, params: HashMap<String, String>| relax_post(o, n, id, reason, params)
    ||| exists|id: u64| restore_post(o, n, id)
}
// histories of ANY length (induction): the collection and id-uniqueness are invariant
pub proof fn lemma_history(h: Seq<Instance>, k: int)
    requires h.len() > 0, rem_wf(h[0].removed_constraints@), 0 <= k < h.len(),
        forall|j: int| 0 <= j < h.len() - 1 ==> step(#[trigger] h[j], h[j + 1]),
    ensures rem_wf(h[k].removed_constraints@), all_ms(h[k]) =~= all_ms(h[0]), uniq_ms(h[0]) ==> uniq_ms(h[k]),
    decreases k
{
    if k > 0 {
        lemma_history(h, k - 1);
        let o = h[k - 1]; let n = h[k];
        assert(step(h[k - 1], h[k - 1 + 1]));
        if n == o {
        } else if exists|id: u64, reason: String, params: HashMap<String, String>| relax_post(o, n, id, reason, params) {
            let (id, reason, params) = choose|id: u64, reason: String, params: HashMap<String, String>| relax_post(o, n, id, reason, params);
            lemma_relax_preserves(o, n, id, reason, params);
        } else {
            let id = choose|id: u64| restore_post(o, n, id);
            lemma_restore_preserves(o, n, id);
        }
    }
}
