// ===== spec/penalty_spec.rs : which expression the penalty methods build, and its value (C09) =====
// per-constraint: g_0 = f,  g_{k+1} = g_k + (p_k * c_k) * c_k     (operator order exactly as in the code)
pub open spec fn pen_obj(f: v1::Function, cs: Seq<v1::Constraint>, ps: Seq<v1::Parameter>, k: int) -> v1::Function decreases k {
    if k <= 0 { f } else { fn_add(pen_obj(f, cs, ps, k - 1), fn_mul(par_mul(ps[k - 1], cfun(cs[k - 1])), cfun(cs[k - 1]))) }
}
// uniform: q_0 = 0, q_{k+1} = q_k + c_k * c_k; objective' = f + p * q_n
pub open spec fn quad_acc(cs: Seq<v1::Constraint>, k: int) -> v1::Function decreases k {
    if k <= 0 { zero_fn() } else { fn_add(quad_acc(cs, k - 1), fn_mul(cfun(cs[k - 1]), cfun(cs[k - 1]))) }
}
// the mathematical value f(x) + sum_i w_i * g_i(x)^2  (w_i = value of weight parameter i in the assignment m)
pub open spec fn pen_val(f: v1::Function, cs: Seq<v1::Constraint>, ps: Seq<v1::Parameter>, k: int, m: Map<u64, F64>) -> real decreases k {
    if k <= 0 { fn_val(f, m) } else { pen_val(f, cs, ps, k - 1, m) + sval(m, ps[k - 1].id) * fn_val(cfun(cs[k - 1]), m) * fn_val(cfun(cs[k - 1]), m) }
}
pub open spec fn sq_sum(cs: Seq<v1::Constraint>, k: int, m: Map<u64, F64>) -> real decreases k {
    if k <= 0 { 0real } else { sq_sum(cs, k - 1, m) + fn_val(cfun(cs[k - 1]), m) * fn_val(cfun(cs[k - 1]), m) }
}
// accumulated epsilon-drop remainders of the operator calls (explicit "up to the documented dropping")
pub open spec fn pen_rem(f: v1::Function, cs: Seq<v1::Constraint>, ps: Seq<v1::Parameter>, k: int, m: Map<u64, F64>) -> real decreases k {
    if k <= 0 { 0real } else {
        let g = cfun(cs[k - 1]); let pg = par_mul(ps[k - 1], g); let t = fn_mul(pg, g);
        pen_rem(f, cs, ps, k - 1, m) + add_rem(pen_obj(f, cs, ps, k - 1), t, m) + mul_rem(pg, g, m) + pmul_rem(ps[k - 1].id, g, m) * fn_val(g, m)
    }
}
pub open spec fn cs_fin(cs: Seq<v1::Constraint>) -> bool { forall|i: int| 0 <= i < cs.len() ==> fn_fin(cfun(#[trigger] cs[i])) }
// the algebra contracts of every operator call made by the per-constraint method (what C02 decides / assumes)
pub open spec fn pen_steps_ok(f: v1::Function, cs: Seq<v1::Constraint>, ps: Seq<v1::Parameter>, k: int) -> bool decreases k {
    if k <= 0 { true } else {
        let g = cfun(cs[k - 1]); let pg = par_mul(ps[k - 1], g); let t = fn_mul(pg, g);
        pen_steps_ok(f, cs, ps, k - 1) && is_par_prod(pg, ps[k - 1], g) && is_prod(t, pg, g) && is_sum(pen_obj(f, cs, ps, k), pen_obj(f, cs, ps, k - 1), t)
    }
}
// value of the built objective = f + sum w g^2 minus the explicit remainder
pub proof fn lemma_pen_value(f: v1::Function, cs: Seq<v1::Constraint>, ps: Seq<v1::Parameter>, k: int, m: Map<u64, F64>)
    requires 0 <= k <= cs.len(), k <= ps.len(), fn_fin(f), cs_fin(cs), pen_steps_ok(f, cs, ps, k)
    ensures fn_fin(pen_obj(f, cs, ps, k)), fn_val(pen_obj(f, cs, ps, k), m) == pen_val(f, cs, ps, k, m) - pen_rem(f, cs, ps, k, m)
    decreases k
{
    if k > 0 {
        lemma_pen_value(f, cs, ps, k - 1, m);
        let g = cfun(cs[k - 1]); let pg = par_mul(ps[k - 1], g); let t = fn_mul(pg, g);
        assert(fn_fin(g));
        assert(fn_val(pg, m) == sval(m, ps[k - 1].id) * fn_val(g, m) - pmul_rem(ps[k - 1].id, g, m));
        assert(fn_val(t, m) == fn_val(pg, m) * fn_val(g, m) - mul_rem(pg, g, m));
        let w = sval(m, ps[k - 1].id); let gv = fn_val(g, m); let pr = pmul_rem(ps[k - 1].id, g, m);
        assert((w * gv - pr) * gv == w * gv * gv - pr * gv) by(nonlinear_arith);
    }
}
pub broadcast proof fn lemma_pen_obj_push(f: v1::Function, cs: Seq<v1::Constraint>, ps: Seq<v1::Parameter>, p: v1::Parameter, m: int)
    requires 0 <= m <= ps.len() + 1
    ensures #[trigger] pen_obj(f, cs, ps.push(p), m) == (if m == ps.len() + 1 {
            fn_add(pen_obj(f, cs, ps, m - 1), fn_mul(par_mul(p, cfun(cs[m - 1])), cfun(cs[m - 1]))) } else { pen_obj(f, cs, ps, m) })
    decreases m
{
    if m > 0 {
        lemma_pen_obj_push(f, cs, ps, p, m - 1);
        if m == ps.len() + 1 { assert(ps.push(p)[m - 1] == p); } else { assert(ps.push(p)[m - 1] == ps[m - 1]); }
    }
}
pub broadcast proof fn lemma_pen_steps_push(f: v1::Function, cs: Seq<v1::Constraint>, ps: Seq<v1::Parameter>, p: v1::Parameter, m: int)
    requires 0 <= m <= ps.len() + 1
    ensures #[trigger] pen_steps_ok(f, cs, ps.push(p), m) == (if m == ps.len() + 1 {
            let g = cfun(cs[m - 1]); let pg = par_mul(p, g); let t = fn_mul(pg, g);
            pen_steps_ok(f, cs, ps, m - 1) && is_par_prod(pg, p, g) && is_prod(t, pg, g) && is_sum(fn_add(pen_obj(f, cs, ps, m - 1), t), pen_obj(f, cs, ps, m - 1), t)
        } else { pen_steps_ok(f, cs, ps, m) })
    decreases m
{
    if m > 0 {
        lemma_pen_steps_push(f, cs, ps, p, m - 1);
        lemma_pen_obj_push(f, cs, ps, p, m);
        lemma_pen_obj_push(f, cs, ps, p, m - 1);
        if m == ps.len() + 1 { assert(ps.push(p)[m - 1] == p); } else { assert(ps.push(p)[m - 1] == ps[m - 1]); }
    }
}
// ---- uniform penalty ----
pub open spec fn quad_rem(cs: Seq<v1::Constraint>, k: int, m: Map<u64, F64>) -> real decreases k {
    if k <= 0 { 0real } else { let g = cfun(cs[k - 1]); quad_rem(cs, k - 1, m) + add_rem(quad_acc(cs, k - 1), fn_mul(g, g), m) + mul_rem(g, g, m) }
}
pub open spec fn quad_steps_ok(cs: Seq<v1::Constraint>, k: int) -> bool decreases k {
    if k <= 0 { true } else { let g = cfun(cs[k - 1]); let t = fn_mul(g, g);
        quad_steps_ok(cs, k - 1) && is_prod(t, g, g) && is_sum(quad_acc(cs, k), quad_acc(cs, k - 1), t) }
}
pub proof fn lemma_quad_value(cs: Seq<v1::Constraint>, k: int, m: Map<u64, F64>)
    requires 0 <= k <= cs.len(), cs_fin(cs), quad_steps_ok(cs, k)
    ensures fn_fin(quad_acc(cs, k)), fn_val(quad_acc(cs, k), m) == sq_sum(cs, k, m) - quad_rem(cs, k, m)
    decreases k
{
    broadcast use ax_zero_f64;
    if k > 0 { lemma_quad_value(cs, k - 1, m); let g = cfun(cs[k - 1]); assert(fn_fin(g)); }
}
// value of the uniform-penalty objective: f + w * sum g^2 (minus explicit remainders)
pub proof fn lemma_uniform_value(f: v1::Function, cs: Seq<v1::Constraint>, p: v1::Parameter, obj: v1::Function, m: Map<u64, F64>)
    requires fn_fin(f), cs_fin(cs), quad_steps_ok(cs, cs.len() as int),
        is_par_prod(par_mul(p, quad_acc(cs, cs.len() as int)), p, quad_acc(cs, cs.len() as int)),
        obj == fn_add(f, par_mul(p, quad_acc(cs, cs.len() as int))), is_sum(obj, f, par_mul(p, quad_acc(cs, cs.len() as int))),
    ensures ({ let n = cs.len() as int; let q = quad_acc(cs, n);
        fn_val(obj, m) == fn_val(f, m) + sval(m, p.id) * sq_sum(cs, n, m)
            - (sval(m, p.id) * quad_rem(cs, n, m) + pmul_rem(p.id, q, m) + add_rem(f, par_mul(p, q), m)) })
{
    let n = cs.len() as int; let q = quad_acc(cs, n);
    lemma_quad_value(cs, n, m);
    let w = sval(m, p.id); let a = sq_sum(cs, n, m); let b = quad_rem(cs, n, m);
    assert(w * (a - b) == w * a - w * b) by(nonlinear_arith);
}
