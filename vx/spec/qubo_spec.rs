// ===== spec/qubo_spec.rs : the QUBO accumulation as a function of the objective's term list, and the value identity (C11) (hand-written, independent of /repo) =====
// the term list enumerated by `for (ids, c) in &objective` (ASSUMED contract of the term iterators): a function of the message whose terms sum to the polynomial
pub uninterp spec fn fterms(f: v1::Function) -> Seq<(SortedIds, F64)>;
pub open spec fn ft_sum(t: Seq<(SortedIds, F64)>, n: int, x: Map<u64, F64>) -> real decreases n {
    if n <= 0 { 0real } else { ft_sum(t, n - 1, x) + mono_val(rv(t[n - 1].1), t[n - 1].0.0@, t[n - 1].0.0@.len() as int, x) }
}
pub broadcast axiom fn ax_fterms_sum(f: v1::Function, x: Map<u64, F64>)
    ensures #[trigger] ft_sum(fterms(f), fterms(f).len() as int, x) == fn_val(f, x);
pub open spec fn ft_fin(t: Seq<(SortedIds, F64)>) -> bool { forall|j: int| 0 <= j < t.len() ==> fin((#[trigger] t[j]).1) }
// a term is skipped when |c| <= EPSILON
pub open spec fn q_kept(c: F64) -> bool { rabs(rv(c)) > eps_real() }
pub open spec fn pair_of(ids: Seq<u64>) -> BinaryIdPair { BinaryIdPair(ids[0], ids[ids.len() - 1]) }
// every id of a kept, non-constant term is its first or its last id (what BinaryIdPair::try_from accepts: at most two distinct variables)
pub open spec fn two_vars(ids: Seq<u64>) -> bool { forall|t: int| 0 <= t < ids.len() ==> #[trigger] ids[t] == ids[0] || ids[t] == ids[ids.len() - 1] }
pub open spec fn q_terms_ok(t: Seq<(SortedIds, F64)>, n: int) -> bool { forall|j: int| 0 <= j < n && q_kept((#[trigger] t[j]).1) && t[j].0.0@.len() > 0 ==> two_vars(t[j].0.0@) }
// the accumulation performed by the code after n terms
pub open spec fn qacc(t: Seq<(SortedIds, F64)>, n: int) -> Map<BinaryIdPair, real> decreases n {
    if n <= 0 { Map::empty() } else {
        let prev = qacc(t, n - 1); let ids = t[n - 1].0.0@; let c = t[n - 1].1;
        if !q_kept(c) || ids.len() == 0 { prev } else {
            let key = pair_of(ids);
            let v = if prev.contains_key(key) { prev[key] + rv(c) } else { rv(c) };
            if rabs(v) < eps_real() { prev.remove(key) } else { prev.insert(key, v) }
        }
    }
}
pub open spec fn qconst(t: Seq<(SortedIds, F64)>, n: int) -> real decreases n {
    if n <= 0 { 0real } else { qconst(t, n - 1) + (if q_kept(t[n - 1].1) && t[n - 1].0.0@.len() == 0 { rv(t[n - 1].1) } else { 0real }) }
}
pub open spec fn qmap_matches(m: Map<BinaryIdPair, F64>, a: Map<BinaryIdPair, real>) -> bool {
    &&& forall|k: BinaryIdPair| m.contains_key(k) <==> a.contains_key(k)
    &&& forall|k: BinaryIdPair| m.contains_key(k) ==> (#[trigger] m[k])@ == XR::Fin(a[k])
}
// value of a QUBO matrix at x: sum_{(i,j)} Q_ij x_i x_j
pub open spec fn qw(k: BinaryIdPair, x: Map<u64, F64>) -> real { sval(x, k.0) * sval(x, k.1) }
pub open spec fn qsum(a: Map<BinaryIdPair, real>, x: Map<u64, F64>) -> real decreases a.dom().len() {
    if a.dom().len() == 0 { 0real } else { let k = a.dom().choose(); a[k] * qw(k, x) + qsum(a.remove(k), x) }
}
pub proof fn lemma_qsum_remove(a: Map<BinaryIdPair, real>, x: Map<u64, F64>, k: BinaryIdPair)
    requires a.contains_key(k)
    ensures qsum(a, x) == a[k] * qw(k, x) + qsum(a.remove(k), x)
    decreases a.dom().len()
{
    let c = a.dom().choose();
    assert(a.dom().len() > 0) by { if a.dom().len() == 0 { assert(a.dom() =~= Set::empty()); } }
    assert(a.dom().contains(c));
    if c != k {
        let ac = a.remove(c); let ak = a.remove(k);
        assert(ac.dom() =~= a.dom().remove(c)); assert(ak.dom() =~= a.dom().remove(k));
        lemma_qsum_remove(ac, x, k);
        lemma_qsum_remove(ak, x, c);
        assert(ac.remove(k) =~= ak.remove(c));
        assert(ac[k] == a[k]); assert(ak[c] == a[c]);
    }
}
pub proof fn lemma_qsum_insert(a: Map<BinaryIdPair, real>, x: Map<u64, F64>, k: BinaryIdPair, v: real)
    ensures qsum(a.insert(k, v), x) == (if a.contains_key(k) { qsum(a, x) - a[k] * qw(k, x) } else { qsum(a, x) }) + v * qw(k, x)
{
    let a2 = a.insert(k, v);
    lemma_qsum_remove(a2, x, k);
    assert(a2.remove(k) =~= a.remove(k));
    if a.contains_key(k) { lemma_qsum_remove(a, x, k); } else { assert(a.remove(k) =~= a); }
}
// x is a 0/1 assignment on the ids
pub open spec fn binary_on(x: Map<u64, F64>, ids: Seq<u64>) -> bool { forall|t: int| 0 <= t < ids.len() ==> sval(x, #[trigger] ids[t]) == 0real || sval(x, ids[t]) == 1real }
// x^k = x: a monomial over at most two distinct binary variables is c * x_first * x_last
pub proof fn lemma_binary_mono(c: real, ids: Seq<u64>, j: int, x: Map<u64, F64>)
    requires 1 <= j <= ids.len(), two_vars(ids), binary_on(x, ids)
    ensures sval(x, ids[0]) == 1real && sval(x, ids[ids.len() - 1]) == 1real ==> mono_val(c, ids, j, x) == c,
        (exists|t: int| 0 <= t < j && sval(x, #[trigger] ids[t]) == 0real) ==> mono_val(c, ids, j, x) == 0real,
    decreases j
{
    let p = sval(x, ids[j - 1]);
    assert(ids[j - 1] == ids[0] || ids[j - 1] == ids[ids.len() - 1]);
    if j == 1 {
        assert(mono_val(c, ids, 0, x) == c);
        assert(c * 1real == c) by(nonlinear_arith); assert(c * 0real == 0real) by(nonlinear_arith);
    } else {
        lemma_binary_mono(c, ids, j - 1, x);
        let q = mono_val(c, ids, j - 1, x);
        assert(q * 1real == q) by(nonlinear_arith); assert(q * 0real == 0real) by(nonlinear_arith); assert(0real * p == 0real) by(nonlinear_arith);
        if exists|t: int| 0 <= t < j && sval(x, #[trigger] ids[t]) == 0real {
            let t = choose|t: int| 0 <= t < j && sval(x, #[trigger] ids[t]) == 0real;
            if t < j - 1 { assert(q == 0real); } else { assert(p == 0real); }
        }
    }
}
pub proof fn lemma_binary_pair(c: real, ids: Seq<u64>, x: Map<u64, F64>)
    requires ids.len() >= 1, two_vars(ids), binary_on(x, ids)
    ensures mono_val(c, ids, ids.len() as int, x) == c * qw(pair_of(ids), x)
{
    let a = sval(x, ids[0]); let b = sval(x, ids[ids.len() - 1]);
    lemma_binary_mono(c, ids, ids.len() as int, x);
    assert(a == 0real || a == 1real); assert(b == 0real || b == 1real);
    if a == 1real && b == 1real { assert(c * (1real * 1real) == c) by(nonlinear_arith); }
    else {
        if a == 0real { assert(sval(x, ids[0]) == 0real); } else { assert(sval(x, ids[ids.len() - 1]) == 0real); }
        assert(c * (a * b) == 0real) by(nonlinear_arith) requires a == 0real || b == 0real;
    }
}
// what the export leaves out: skipped terms (|c| <= EPSILON) and entries removed because their accumulated value became numerically zero
pub open spec fn qrem(t: Seq<(SortedIds, F64)>, n: int, x: Map<u64, F64>) -> real decreases n {
    if n <= 0 { 0real } else {
        let prev = qacc(t, n - 1); let ids = t[n - 1].0.0@; let c = t[n - 1].1;
        qrem(t, n - 1, x) + (
            if !q_kept(c) { mono_val(rv(c), ids, ids.len() as int, x) }
            else if ids.len() == 0 { 0real }
            else { let key = pair_of(ids); let v = if prev.contains_key(key) { prev[key] + rv(c) } else { rv(c) };
                   if rabs(v) < eps_real() { v * qw(key, x) } else { 0real } })
    }
}
// THE PROPERTY (QUBO half): sum_{i<=j} Q_ij x_i x_j + offset = objective(x) on every 0/1 assignment, minus the explicit remainder
pub proof fn lemma_qubo_value(t: Seq<(SortedIds, F64)>, n: int, x: Map<u64, F64>)
    requires 0 <= n <= t.len(), q_terms_ok(t, n), forall|j: int| 0 <= j < n ==> binary_on(x, (#[trigger] t[j]).0.0@)
    ensures qsum(qacc(t, n), x) + qconst(t, n) == ft_sum(t, n, x) - qrem(t, n, x)
    decreases n
{
    if n > 0 {
        lemma_qubo_value(t, n - 1, x);
        let prev = qacc(t, n - 1); let ids = t[n - 1].0.0@; let c = t[n - 1].1;
        if q_kept(c) && ids.len() > 0 {
            assert(two_vars(ids));
            lemma_binary_pair(rv(c), ids, x);
            let key = pair_of(ids);
            let v = if prev.contains_key(key) { prev[key] + rv(c) } else { rv(c) };
            let w = qw(key, x);
            if prev.contains_key(key) { assert((prev[key] + rv(c)) * w == prev[key] * w + rv(c) * w) by(nonlinear_arith); }
            if rabs(v) < eps_real() {
                if prev.contains_key(key) { lemma_qsum_remove(prev, x, key); } else { assert(prev.remove(key) =~= prev); }
            } else {
                lemma_qsum_insert(prev, x, key, v);
            }
        } else if q_kept(c) {
            assert(mono_val(rv(c), ids, 0, x) == rv(c));
        }
    }
}

// ---------------------------------------------------------------- PUBO: keys are SETS of binary ids
// T4: a BinaryIds value is determined by the set it holds (BTreeSet<u64> is a set: equal contents = equal value); bkey names the key of an id list
pub broadcast axiom fn ax_binary_ids_ext(a: BinaryIds, b: BinaryIds)
    requires a.0@ == b.0@ ensures #[trigger] a.0@ == #[trigger] b.0@ ==> a == b;
pub uninterp spec fn bkey(ids: Seq<u64>) -> BinaryIds;
pub broadcast axiom fn ax_bkey(ids: Seq<u64>) ensures (#[trigger] bkey(ids)).0@ == ids.to_set();
pub open spec fn pacc(t: Seq<(SortedIds, F64)>, n: int) -> Map<BinaryIds, real> decreases n {
    if n <= 0 { Map::empty() } else {
        let prev = pacc(t, n - 1); let ids = t[n - 1].0.0@; let c = t[n - 1].1;
        if !q_kept(c) { prev } else {
            let key = bkey(ids);
            let v = if prev.contains_key(key) { prev[key] + rv(c) } else { rv(c) };
            if rabs(v) < eps_real() { prev.remove(key) } else { prev.insert(key, v) }
        }
    }
}
pub open spec fn pmap_matches(m: Map<BinaryIds, F64>, a: Map<BinaryIds, real>) -> bool {
    &&& forall|k: BinaryIds| m.contains_key(k) <==> a.contains_key(k)
    &&& forall|k: BinaryIds| m.contains_key(k) ==> (#[trigger] m[k])@ == XR::Fin(a[k])
}
// product of 0/1 values over a set: 1 when every variable of the set is 1, else 0
pub open spec fn pbw(k: BinaryIds, x: Map<u64, F64>) -> real { if forall|i: u64| k.0@.contains(i) ==> sval(x, i) == 1real { 1real } else { 0real } }
pub open spec fn psum(a: Map<BinaryIds, real>, x: Map<u64, F64>) -> real decreases a.dom().len() {
    if a.dom().len() == 0 { 0real } else { let k = a.dom().choose(); a[k] * pbw(k, x) + psum(a.remove(k), x) }
}
pub proof fn lemma_psum_remove(a: Map<BinaryIds, real>, x: Map<u64, F64>, k: BinaryIds)
    requires a.contains_key(k)
    ensures psum(a, x) == a[k] * pbw(k, x) + psum(a.remove(k), x)
    decreases a.dom().len()
{
    let c = a.dom().choose();
    assert(a.dom().len() > 0) by { if a.dom().len() == 0 { assert(a.dom() =~= Set::empty()); } }
    assert(a.dom().contains(c));
    if c != k {
        let ac = a.remove(c); let ak = a.remove(k);
        assert(ac.dom() =~= a.dom().remove(c)); assert(ak.dom() =~= a.dom().remove(k));
        lemma_psum_remove(ac, x, k);
        lemma_psum_remove(ak, x, c);
        assert(ac.remove(k) =~= ak.remove(c));
        assert(ac[k] == a[k]); assert(ak[c] == a[c]);
    }
}
pub proof fn lemma_psum_insert(a: Map<BinaryIds, real>, x: Map<u64, F64>, k: BinaryIds, v: real)
    ensures psum(a.insert(k, v), x) == (if a.contains_key(k) { psum(a, x) - a[k] * pbw(k, x) } else { psum(a, x) }) + v * pbw(k, x)
{
    let a2 = a.insert(k, v);
    lemma_psum_remove(a2, x, k);
    assert(a2.remove(k) =~= a.remove(k));
    if a.contains_key(k) { lemma_psum_remove(a, x, k); } else { assert(a.remove(k) =~= a); }
}
pub proof fn lemma_binary_prod(c: real, ids: Seq<u64>, j: int, x: Map<u64, F64>)
    requires 0 <= j <= ids.len(), binary_on(x, ids)
    ensures (forall|t: int| 0 <= t < j ==> sval(x, #[trigger] ids[t]) == 1real) ==> mono_val(c, ids, j, x) == c,
        (exists|t: int| 0 <= t < j && sval(x, #[trigger] ids[t]) == 0real) ==> mono_val(c, ids, j, x) == 0real,
    decreases j
{
    if j > 0 {
        lemma_binary_prod(c, ids, j - 1, x);
        let q = mono_val(c, ids, j - 1, x); let p = sval(x, ids[j - 1]);
        assert(p == 0real || p == 1real);
        assert(q * 1real == q) by(nonlinear_arith); assert(q * 0real == 0real) by(nonlinear_arith); assert(0real * p == 0real) by(nonlinear_arith);
        if exists|t: int| 0 <= t < j && sval(x, #[trigger] ids[t]) == 0real {
            let t = choose|t: int| 0 <= t < j && sval(x, #[trigger] ids[t]) == 0real;
            if t < j - 1 { assert(q == 0real); } else { assert(p == 0real); }
        }
    }
}
pub proof fn lemma_binary_set(c: real, ids: Seq<u64>, x: Map<u64, F64>)
    requires binary_on(x, ids)
    ensures mono_val(c, ids, ids.len() as int, x) == c * pbw(bkey(ids), x)
{
    broadcast use ax_bkey;
    lemma_binary_prod(c, ids, ids.len() as int, x);
    let k = bkey(ids);
    if forall|i: u64| k.0@.contains(i) ==> sval(x, i) == 1real {
        assert forall|t: int| 0 <= t < ids.len() implies sval(x, #[trigger] ids[t]) == 1real by { assert(ids.to_set().contains(ids[t])); }
        assert(c * 1real == c) by(nonlinear_arith);
    } else {
        let i = choose|i: u64| k.0@.contains(i) && sval(x, i) != 1real;
        assert(ids.to_set().contains(i));
        let t = choose|t: int| 0 <= t < ids.len() && ids[t] == i;
        assert(sval(x, ids[t]) == 0real);
        assert(c * 0real == 0real) by(nonlinear_arith);
    }
}
pub open spec fn prem(t: Seq<(SortedIds, F64)>, n: int, x: Map<u64, F64>) -> real decreases n {
    if n <= 0 { 0real } else {
        let prev = pacc(t, n - 1); let ids = t[n - 1].0.0@; let c = t[n - 1].1;
        prem(t, n - 1, x) + (
            if !q_kept(c) { mono_val(rv(c), ids, ids.len() as int, x) }
            else { let key = bkey(ids); let v = if prev.contains_key(key) { prev[key] + rv(c) } else { rv(c) };
                   if rabs(v) < eps_real() { v * pbw(key, x) } else { 0real } })
    }
}
// THE PROPERTY (PUBO half): sum_S c_S prod_{i in S} x_i = objective(x) on every 0/1 assignment, minus the explicit remainder
pub proof fn lemma_pubo_value(t: Seq<(SortedIds, F64)>, n: int, x: Map<u64, F64>)
    requires 0 <= n <= t.len(), forall|j: int| 0 <= j < n ==> binary_on(x, (#[trigger] t[j]).0.0@)
    ensures psum(pacc(t, n), x) == ft_sum(t, n, x) - prem(t, n, x)
    decreases n
{
    if n > 0 {
        lemma_pubo_value(t, n - 1, x);
        let prev = pacc(t, n - 1); let ids = t[n - 1].0.0@; let c = t[n - 1].1;
        if q_kept(c) {
            lemma_binary_set(rv(c), ids, x);
            let key = bkey(ids);
            let v = if prev.contains_key(key) { prev[key] + rv(c) } else { rv(c) };
            let w = pbw(key, x);
            if prev.contains_key(key) { assert((prev[key] + rv(c)) * w == prev[key] * w + rv(c) * w) by(nonlinear_arith); }
            if rabs(v) < eps_real() {
                if prev.contains_key(key) { lemma_psum_remove(prev, x, key); } else { assert(prev.remove(key) =~= prev); }
            } else {
                lemma_psum_insert(prev, x, key, v);
            }
        }
    }
}
