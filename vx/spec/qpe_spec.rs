// ===== spec/qpe_spec.rs : Quadratic::partial_evaluate - the exact linear map it collects, as a function of the inputs, and what Linear::new drops from it (hand-written, independent of /repo) =====
pub open spec fn bump(g: Map<u64, real>, k: u64, c: real) -> Map<u64, real> { g.insert(k, (if g.contains_key(k) { g[k] } else { 0real }) + c) }
pub open spec fn swap_rm<T>(s: Seq<T>, i: int) -> Seq<T> { s.update(i, s.last()).drop_last() }
pub open spec fn opt_terms(l: Option<v1::Linear>) -> Seq<v1::linear::Term> { match l { Some(x) => x.terms@, None => Seq::empty() } }
pub open spec fn opt_const(l: Option<v1::Linear>) -> real { match l { Some(x) => rv(x.constant), None => 0real } }
// first loop: the linear terms whose variable is not fixed, accumulated under their id (nothing is dropped here)
pub open spec fn lacc(t: Seq<v1::linear::Term>, n: int, st: Map<u64, F64>) -> Map<u64, real> decreases n {
    if n <= 0 { Map::empty() } else {
        let p = lacc(t, n - 1, st); let e = t[n - 1];
        if st.contains_key(e.id) { p } else { bump(p, e.id, rv(e.coefficient)) }
    }
}
// second loop, from position i on: a COO entry with exactly one fixed endpoint adds value * fixed value under the free endpoint; entries with a fixed endpoint
// are swap-removed, the others are skipped
pub open spec fn qpe_run(rows: Seq<u64>, cols: Seq<u64>, vals: Seq<F64>, i: int, st: Map<u64, F64>, g: Map<u64, real>) -> Map<u64, real>
    decreases rows.len() - i
{
    if i < 0 || i >= rows.len() || cols.len() != rows.len() || vals.len() != rows.len() { g } else {
        let r = rows[i]; let c = cols[i]; let v = rv(vals[i]);
        let fr = st.contains_key(r); let fc = st.contains_key(c);
        if !fr && !fc { qpe_run(rows, cols, vals, i + 1, st, g) } else {
            let g2 = if fr && fc { g } else if fr { bump(g, c, v * rv(st[r])) } else { bump(g, r, v * rv(st[c])) };
            qpe_run(swap_rm(rows, i), swap_rm(cols, i), swap_rm(vals, i), i, st, g2)
        }
    }
}
// the exact linear part of the partially evaluated quadratic (before Linear::new merges it)
pub open spec fn qpe_lin(q: v1::Quadratic, st: Map<u64, F64>) -> Map<u64, real> {
    qpe_run(q.rows@, q.columns@, q.values@, 0, st, lacc(opt_terms(q.linear), opt_terms(q.linear).len() as int, st))
}
// what Linear::new keeps of a map with one entry per id: the entries with |v| > EPSILON
pub open spec fn drop_eps(g: Map<u64, real>) -> Map<u64, real> { g.restrict(g.dom().filter(|k: u64| rabs(g[k]) > eps_real())) }
// the documented dropping, made explicit: the entries of the exact linear part with |v| <= EPSILON
pub open spec fn quad_pe_rem(q: v1::Quadratic, st: Map<u64, F64>, m: Map<u64, F64>) -> real { msum(qpe_lin(q, st), m) - msum(drop_eps(qpe_lin(q, st)), m) }

pub proof fn lemma_msum_empty(x: Map<u64, F64>)
    ensures msum(Map::<u64, real>::empty(), x) == 0real
{ assert(Map::<u64, real>::empty().dom() =~= Set::<u64>::empty()); }
pub proof fn lemma_msum_bump(g: Map<u64, real>, x: Map<u64, F64>, k: u64, c: real)
    ensures msum(bump(g, k, c), x) == msum(g, x) + c * sval(x, k)
{
    let g2 = bump(g, k, c);
    lemma_msum_remove(g2, x, k);
    assert(g2.remove(k) =~= g.remove(k));
    if g.contains_key(k) {
        lemma_msum_remove(g, x, k);
        assert((g[k] + c) * sval(x, k) == g[k] * sval(x, k) + c * sval(x, k)) by(nonlinear_arith);
    } else { assert(g.remove(k) =~= g); }
}
// Linear::new on a listing with one entry per key: exactly drop_eps of the listed map
pub proof fn lemma_acc_listing(l: Seq<(u64, F64)>, n: int, g: Map<u64, real>)
    requires klists(l, n, g)
    ensures acc(pairs_terms(l), n) =~= drop_eps(g)
    decreases n
{
    if n == 0 { assert(g.dom().len() == 0); assert(g.dom() =~= Set::<u64>::empty()); } else {
        let k = l[n - 1].0; let g2 = g.remove(k);
        assert(g2.dom() =~= g.dom().remove(k));
        assert forall|i: int| 0 <= i < n - 1 implies g2.contains_key((#[trigger] l[i]).0) && l[i].1@ == XR::Fin(g2[l[i].0]) by { assert(l[i].0 != l[n - 1].0); }
        assert(klists(l, n - 1, g2));
        lemma_acc_listing(l, n - 1, g2);
        let t = pairs_terms(l);
        assert(t[n - 1].id == k && t[n - 1].coefficient == l[n - 1].1);
        assert(!drop_eps(g2).contains_key(k));
        assert(rv(l[n - 1].1) == g[k]);
    }
}
// quad_sum under Vec::swap_remove on the three COO arrays
pub proof fn lemma_quad_sum_ext(r1: Seq<u64>, c1: Seq<u64>, v1: Seq<F64>, r2: Seq<u64>, c2: Seq<u64>, v2: Seq<F64>, n: int, m: Map<u64, F64>)
    requires n <= r1.len(), n <= c1.len(), n <= v1.len(), n <= r2.len(), n <= c2.len(), n <= v2.len(), forall|j: int| 0 <= j < n ==> r1[j] == r2[j] && c1[j] == c2[j] && v1[j] == v2[j]
    ensures quad_sum(r1, c1, v1, n, m) == quad_sum(r2, c2, v2, n, m)
    decreases n
{ if n > 0 { lemma_quad_sum_ext(r1, c1, v1, r2, c2, v2, n - 1, m); } }
pub proof fn lemma_quad_sum_set(r: Seq<u64>, c: Seq<u64>, v: Seq<F64>, n: int, i: int, re: u64, ce: u64, ve: F64, m: Map<u64, F64>)
    requires 0 <= i < n, n <= r.len(), n <= c.len(), n <= v.len()
    ensures quad_sum(r.update(i, re), c.update(i, ce), v.update(i, ve), n, m) == quad_sum(r, c, v, n, m) - rv(v[i]) * sval(m, r[i]) * sval(m, c[i]) + rv(ve) * sval(m, re) * sval(m, ce)
    decreases n
{
    if n - 1 > i { lemma_quad_sum_set(r, c, v, n - 1, i, re, ce, ve, m); }
    else { lemma_quad_sum_ext(r.update(i, re), c.update(i, ce), v.update(i, ve), r, c, v, n - 1, m); }
}
pub proof fn lemma_quad_swap_removed(r: Seq<u64>, c: Seq<u64>, v: Seq<F64>, i: int, m: Map<u64, F64>)
    requires 0 <= i < r.len(), c.len() == r.len(), v.len() == r.len()
    ensures quad_sum(swap_rm(r, i), swap_rm(c, i), swap_rm(v, i), r.len() - 1, m) == quad_sum(r, c, v, r.len() as int, m) - rv(v[i]) * sval(m, r[i]) * sval(m, c[i])
{
    let n = r.len() as int;
    let ru = r.update(i, r.last()); let cu = c.update(i, c.last()); let vu = v.update(i, v.last());
    if i < n - 1 {
        lemma_quad_sum_set(r, c, v, n - 1, i, r.last(), c.last(), v.last(), m);
        lemma_quad_sum_ext(ru.drop_last(), cu.drop_last(), vu.drop_last(), ru, cu, vu, n - 1, m);
    } else {
        lemma_quad_sum_ext(ru.drop_last(), cu.drop_last(), vu.drop_last(), r, c, v, n - 1, m);
    }
}
pub proof fn lemma_quad_ids_swap_removed(r: Seq<u64>, c: Seq<u64>, i: int)
    requires 0 <= i < r.len(), c.len() == r.len()
    ensures quad_ids(swap_rm(r, i), swap_rm(c, i), r.len() - 1).insert(r[i]).insert(c[i]) =~= quad_ids(r, c, r.len() as int)
{
    let n = r.len() as int; let r2 = swap_rm(r, i); let c2 = swap_rm(c, i);
    let lhs = quad_ids(r2, c2, n - 1).insert(r[i]).insert(c[i]); let rhs = quad_ids(r, c, n);
    assert forall|k: u64| lhs.contains(k) <==> rhs.contains(k) by {
        lemma_quad_ids_mem(r2, c2, n - 1, k);
        lemma_quad_ids_mem(r, c, n, k);
        if lhs.contains(k) {
            if k == r[i] || k == c[i] { assert(pos_has(r, c, i, k)); } else {
                let j = choose|j: int| 0 <= j < n - 1 && #[trigger] pos_has(r2, c2, j, k);
                if j == i { assert(pos_has(r, c, n - 1, k)); } else { assert(pos_has(r, c, j, k)); }
            }
        }
        if rhs.contains(k) {
            let j = choose|j: int| 0 <= j < n && #[trigger] pos_has(r, c, j, k);
            if j == i { } else if j == n - 1 { assert(i < n - 1); assert(pos_has(r2, c2, i, k)); } else { assert(pos_has(r2, c2, j, k)); }
        }
    }
}
// ids of the unfixed linear terms are keys of lacc, the fixed ones are not
pub proof fn lemma_lacc_keys(t: Seq<v1::linear::Term>, n: int, st: Map<u64, F64>, k: u64)
    requires 0 <= n <= t.len()
    ensures lacc(t, n, st).contains_key(k) <==> (!st.contains_key(k) && lin_ids(t, n).contains(k))
    decreases n
{ if n > 0 { lemma_lacc_keys(t, n - 1, st, k); } }
// the first n COO positions have no fixed endpoint (kept as a named predicate with explicit lemmas: the proofs do not rely on trigger matching)
pub open spec fn unfixed(r: Seq<u64>, c: Seq<u64>, n: int, st: Map<u64, F64>) -> bool { forall|j: int| #![trigger r[j]] #![trigger c[j]] 0 <= j < n ==> !st.contains_key(r[j]) && !st.contains_key(c[j]) }
pub proof fn lemma_unfixed_at(r: Seq<u64>, c: Seq<u64>, n: int, st: Map<u64, F64>, j: int)
    requires unfixed(r, c, n, st), 0 <= j < n
    ensures !st.contains_key(r[j]), !st.contains_key(c[j])
{}
pub proof fn lemma_unfixed_step(r: Seq<u64>, c: Seq<u64>, n: int, st: Map<u64, F64>)
    requires unfixed(r, c, n, st), 0 <= n < r.len(), n < c.len(), !st.contains_key(r[n]), !st.contains_key(c[n])
    ensures unfixed(r, c, n + 1, st)
{
    assert forall|j: int| #![trigger r[j]] #![trigger c[j]] 0 <= j < n + 1 implies !st.contains_key(r[j]) && !st.contains_key(c[j]) by { if j < n { lemma_unfixed_at(r, c, n, st, j); } }
}
pub proof fn lemma_unfixed_swap(r: Seq<u64>, c: Seq<u64>, i: int, st: Map<u64, F64>)
    requires unfixed(r, c, i, st), 0 <= i < r.len(), c.len() == r.len()
    ensures unfixed(swap_rm(r, i), swap_rm(c, i), i, st)
{
    let r2 = swap_rm(r, i); let c2 = swap_rm(c, i);
    assert forall|j: int| #![trigger r2[j]] #![trigger c2[j]] 0 <= j < i implies !st.contains_key(r2[j]) && !st.contains_key(c2[j]) by { assert(r2[j] == r[j] && c2[j] == c[j]); lemma_unfixed_at(r, c, i, st, j); }
}
pub proof fn lemma_unfixed_ids(r: Seq<u64>, c: Seq<u64>, st: Map<u64, F64>, k: u64)
    requires unfixed(r, c, r.len() as int, st), c.len() == r.len(), quad_ids(r, c, r.len() as int).contains(k)
    ensures !st.contains_key(k)
{
    lemma_quad_ids_mem(r, c, r.len() as int, k);
    let j = choose|j: int| 0 <= j < r.len() && #[trigger] pos_has(r, c, j, k);
    lemma_unfixed_at(r, c, r.len() as int, st, j);
}
