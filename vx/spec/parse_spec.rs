// ===== spec/parse_spec.rs : vocabulary for C08 part B (typed parse layer) =====
pub open spec fn ctx(m: StrLit, f: StrLit) -> ParseContext { ParseContext { message: m, field: f } }
// e is error `raw` reported at `path` (innermost first)
pub open spec fn err_at(e: ParseError, raw: RawParseError, path: Seq<ParseContext>) -> bool { e.error == raw && e.context@ =~= path }
// r is e with one more path element appended
pub open spec fn wrapped(r: ParseError, e: ParseError, m: StrLit, f: StrLit) -> bool { r.error == e.error && r.context@ =~= e.context@.push(ctx(m, f)) }
pub open spec fn kind_typed(k: v1::decision_variable::Kind) -> Kind {
    match k {
        v1::decision_variable::Kind::Continuous => Kind::Continuous, v1::decision_variable::Kind::Integer => Kind::Integer, v1::decision_variable::Kind::Binary => Kind::Binary,
        v1::decision_variable::Kind::SemiContinuous => Kind::SemiContinuous, v1::decision_variable::Kind::SemiInteger => Kind::SemiInteger, v1::decision_variable::Kind::Unspecified => arbitrary(),
    }
}
// the typed function carries the same content as the raw oneof
pub open spec fn fn_typed(f: v1::Function, o: Function) -> bool {
    match f.function {
        Some(v1::function::Function::Constant(c)) => o == Function::Constant(c),
        Some(v1::function::Function::Linear(l)) => o == Function::Linear(l),
        Some(v1::function::Function::Quadratic(q)) => o == Function::Quadratic(q),
        Some(v1::function::Function::Polynomial(p)) => o == Function::Polynomial(p),
        None => false,
    }
}
pub open spec fn u64s_distinct(s: Seq<u64>) -> bool { forall|i: int, j: int| 0 <= i < j < s.len() ==> #[trigger] s[i] != #[trigger] s[j] }
pub type HintCtx = (HashMap<VariableID, DecisionVariable>, HashMap<ConstraintID, Constraint>);
pub open spec fn vars_defined(c: HintCtx, ids: Seq<u64>) -> bool { forall|i: int| 0 <= i < ids.len() ==> c.0@.contains_key(VariableID(#[trigger] ids[i])) }
pub open spec fn cons_defined(c: HintCtx, ids: Seq<u64>) -> bool { forall|i: int| 0 <= i < ids.len() ==> c.1@.contains_key(ConstraintID(#[trigger] ids[i])) }
pub open spec fn var_set_of(s: Set<VariableID>, ids: Seq<u64>) -> bool { forall|k: VariableID| #[trigger] s.contains(k) <==> exists|i: int| 0 <= i < ids.len() && #[trigger] ids[i] == k.0 }
pub open spec fn con_set_of(s: Set<ConstraintID>, ids: Seq<u64>) -> bool { forall|k: ConstraintID| #[trigger] s.contains(k) <==> exists|i: int| 0 <= i < ids.len() && #[trigger] ids[i] == k.0 }
// error shapes of the hint parsers
pub open spec fn undef_var_err(e: ParseError, c: HintCtx, ids: Seq<u64>, m: StrLit, f: StrLit) -> bool {
    exists|i: int| 0 <= i < ids.len() && !c.0@.contains_key(VariableID(#[trigger] ids[i])) && err_at(e, RawParseError::UndefinedVariableID { id: VariableID(ids[i]) }, seq![ctx(m, f)])
}
pub open spec fn dup_var_err(e: ParseError, ids: Seq<u64>, m: StrLit, f: StrLit) -> bool {
    exists|i: int, j: int| 0 <= i < j < ids.len() && #[trigger] ids[i] == #[trigger] ids[j] && err_at(e, RawParseError::NonUniqueVariableID { id: VariableID(ids[j]) }, seq![ctx(m, f)])
}
pub open spec fn undef_con_err(e: ParseError, c: HintCtx, ids: Seq<u64>, m: StrLit, f: StrLit) -> bool {
    exists|i: int| 0 <= i < ids.len() && !c.1@.contains_key(ConstraintID(#[trigger] ids[i])) && err_at(e, RawParseError::UndefinedConstraintID { id: ConstraintID(ids[i]) }, seq![ctx(m, f)])
}
pub open spec fn dup_con_err(e: ParseError, ids: Seq<u64>, m: StrLit, f: StrLit) -> bool {
    exists|i: int, j: int| 0 <= i < j < ids.len() && #[trigger] ids[i] == #[trigger] ids[j] && err_at(e, RawParseError::NonUniqueConstraintID { id: ConstraintID(ids[j]) }, seq![ctx(m, f)])
}
