// ===== spec/parse_spec.rs : vocabulary for C08 part B (typed parse layer) =====
pub open spec fn ctx(m: StrLit, f: StrLit) -> ParseContext { ParseContext { message: m, field: f } }
// e is error `raw` reported at `path` (innermost first)
pub open spec fn err_at(e: ParseError, raw: RawParseError, path: Seq<ParseContext>) -> bool { e.error == raw && e.context@ =~= path }
// r is e with one more path element appended
pub open spec fn wrapped(r: ParseError, e: ParseError, m: StrLit, f: StrLit) -> bool { r.error == e.error && r.context@ =~= e.context@.push(ctx(m, f)) }
pub open spec fn kind_typed(k: v1::decision_variable::Kind) -> Kind {
    match k {
        v1::decision_variable::Kind::Continuous => Kind::Continuous, v1::decision_variable::Kind::Integer => Kind::Integer, v1::decision_variable::Kind::Binary => Kind::Binary,
        v1::decision_variable::Kind::SemiContinuous => Kind::SemiContinuous, v1::decision_variable::Kind::SemiInteger => Kind::SemiInteger, v1::decision_variable::Kind::Unspecified => arbitrary(),
    }
}
// the typed function carries the same content as the raw oneof
pub open spec fn fn_typed(f: v1::Function, o: Function) -> bool {
    match f.function {
        Some(v1::function::Function::Constant(c)) => o == Function::Constant(c),
        Some(v1::function::Function::Linear(l)) => o == Function::Linear(l),
        Some(v1::function::Function::Quadratic(q)) => o == Function::Quadratic(q),
        Some(v1::function::Function::Polynomial(p)) => o == Function::Polynomial(p),
        None => false,
    }
}
