// ===== spec/lmul_spec.rs : Linear * f64 as a structural relation, remainders that depend on terms only through (id, value), Linear * Linear (hand-written, independent of /repo) =====
// `x * r` (Mul<f64> for Linear): the zero short cut gives the empty function, otherwise every coefficient and the constant are scaled in place
pub open spec fn lin_scaled(out: v1::Linear, x: v1::Linear, r: F64) -> bool {
    if rv(r) == 0real { out.terms.len() == 0 && out.constant@ == XR::Fin(0real) } else {
        &&& out.terms.len() == x.terms.len()
        &&& out.constant@ == XR::Fin(rv(x.constant) * rv(r))
        &&& forall|i: int| 0 <= i < x.terms.len() ==> (#[trigger] out.terms[i]).id == x.terms[i].id && out.terms[i].coefficient@ == XR::Fin(rv(x.terms[i].coefficient) * rv(r))
    }
}
// two term lists that agree on ids and coefficient values (the F64 objects themselves need not be identical)
pub open spec fn terms_sim(s: Seq<v1::linear::Term>, t: Seq<v1::linear::Term>) -> bool {
    s.len() == t.len() && forall|i: int| 0 <= i < s.len() ==> (#[trigger] s[i]).id == t[i].id && rv(s[i].coefficient) == rv(t[i].coefficient)
}
pub proof fn lemma_scaled_sim(o1: v1::Linear, o2: v1::Linear, x: v1::Linear, r: F64)
    requires lin_scaled(o1, x, r), lin_scaled(o2, x, r)
    ensures terms_sim(o1.terms@, o2.terms@), rv(o1.constant) == rv(o2.constant)
{
    if rv(r) != 0real {
        assert forall|i: int| 0 <= i < o1.terms.len() implies (#[trigger] o1.terms@[i]).id == o2.terms@[i].id && rv(o1.terms@[i].coefficient) == rv(o2.terms@[i].coefficient) by {
            assert(o1.terms[i].id == x.terms[i].id); assert(o2.terms[i].id == x.terms[i].id); }
    }
}
pub proof fn lemma_acc_ext(s: Seq<v1::linear::Term>, t: Seq<v1::linear::Term>, n: int)
    requires terms_sim(s, t), 0 <= n <= s.len()
    ensures acc(s, n) == acc(t, n)
    decreases n
{ if n > 0 { lemma_acc_ext(s, t, n - 1); assert(s[n - 1].id == t[n - 1].id); } }
pub proof fn lemma_lin_sum_sim(s: Seq<v1::linear::Term>, t: Seq<v1::linear::Term>, n: int, m: Map<u64, F64>)
    requires terms_sim(s, t), 0 <= n <= s.len()
    ensures lin_sum(s, n, m) == lin_sum(t, n, m)
    decreases n
{ if n > 0 { lemma_lin_sum_sim(s, t, n - 1, m); assert(s[n - 1].id == t[n - 1].id); } }
pub proof fn lemma_rem_add_ext(a1: v1::Linear, b1: v1::Linear, a2: v1::Linear, b2: v1::Linear, m: Map<u64, F64>)
    requires terms_sim(a1.terms@, a2.terms@), terms_sim(b1.terms@, b2.terms@)
    ensures rem_add_linear_linear(a1, b1, m) == rem_add_linear_linear(a2, b2, m)
{
    let s = a1.terms@ + b1.terms@; let t = a2.terms@ + b2.terms@;
    assert(terms_sim(s, t)) by {
        assert forall|i: int| 0 <= i < s.len() implies (#[trigger] s[i]).id == t[i].id && rv(s[i].coefficient) == rv(t[i].coefficient) by {
            if i < a1.terms.len() { assert(s[i] == a1.terms@[i]); assert(t[i] == a2.terms@[i]); } else { assert(s[i] == b1.terms@[i - a1.terms.len()]); assert(t[i] == b2.terms@[i - a1.terms.len()]); } } }
    lemma_acc_ext(s, t, s.len() as int);
    lemma_lin_sum_sim(a1.terms@, a2.terms@, a1.terms.len() as int, m);
    lemma_lin_sum_sim(b1.terms@, b2.terms@, b1.terms.len() as int, m);
}
// the two scaled operands whose sum forms the linear part of Linear * Linear (any pair satisfying the relation gives the same remainder: lemma_rem_add_ext)
pub open spec fn lmul_parts(x: v1::Linear, y: v1::Linear) -> (v1::Linear, v1::Linear) {
    choose|p: (v1::Linear, v1::Linear)| lin_scaled(p.0, x, y.constant) && lin_scaled(p.1, y, x.constant)
}
pub proof fn lemma_lmul_rem(x: v1::Linear, y: v1::Linear, l1: v1::Linear, l2: v1::Linear, m: Map<u64, F64>)
    requires lin_scaled(l1, x, y.constant), lin_scaled(l2, y, x.constant)
    ensures rem_mul_linear_linear(x, y, m) == rem_add_linear_linear(l1, l2, m)
{
    let w = (l1, l2);
    assert(lin_scaled(w.0, x, y.constant) && lin_scaled(w.1, y, x.constant));
    let p = lmul_parts(x, y);
    lemma_scaled_sim(p.0, l1, x, y.constant); lemma_scaled_sim(p.1, l2, y, x.constant);
    lemma_rem_add_ext(p.0, p.1, l1, l2, m);
}
// one more product coefficient accumulated under its position
pub proof fn lemma_ksum_bump<K>(a: Map<K, real>, w: spec_fn(K) -> real, k: K, c: real)
    ensures ksum(a.insert(k, (if a.contains_key(k) { a[k] } else { 0real }) + c), w) == ksum(a, w) + c * w(k)
{
    let v = (if a.contains_key(k) { a[k] } else { 0real }) + c;
    lemma_ksum_insert(a, w, k, v);
    if a.contains_key(k) { assert((a[k] + c) * w(k) == a[k] * w(k) + c * w(k)) by(nonlinear_arith); }
}
pub proof fn lemma_prod_step(s: real, ac: real, ax: real, l: real, bc: real, bx: real)
    ensures s + (ac * ax) * l + (ac * bc) * (ax * bx) == s + (ac * ax) * (l + bc * bx),
            s + (ac * ax) * l + (ac * bc) * (bx * ax) == s + (ac * ax) * (l + bc * bx),
{
    assert((ac * bc) * (ax * bx) == (ac * ax) * (bc * bx)) by(nonlinear_arith);
    assert((ac * bc) * (bx * ax) == (ac * ax) * (bc * bx)) by(nonlinear_arith);
    assert((ac * ax) * (l + bc * bx) == (ac * ax) * l + (ac * ax) * (bc * bx)) by(nonlinear_arith);
}
pub proof fn lemma_prod_row(la: real, ta: real, lb: real)
    ensures la * lb + ta * lb == (la + ta) * lb
{ assert(la * lb + ta * lb == (la + ta) * lb) by(nonlinear_arith); }
pub proof fn lemma_lmul_total(a: real, b: real, c: real, r: real)
    ensures a * b + (c + a) * r + (r + b) * c - r * c == (c + a) * (r + b)
{ assert(a * b + (c + a) * r + (r + b) * c - r * c == (c + a) * (r + b)) by(nonlinear_arith); }
