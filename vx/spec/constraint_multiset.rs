// ===== spec/constraint_multiset.rs : ghost view for C14 (hand-written) =====
pub open spec fn removed_has_id(rc: v1::RemovedConstraint, id: u64) -> bool { rc.constraint is Some && rc.constraint->Some_0.id == id }
pub open spec fn first_active(cs: Seq<v1::Constraint>, id: u64) -> int {
    choose|i: int| 0 <= i < cs.len() && cs[i].id == id && (forall|j: int| 0 <= j < i ==> (#[trigger] cs[j]).id != id)
}
pub open spec fn first_removed(rs: Seq<v1::RemovedConstraint>, id: u64) -> int {
    choose|i: int| 0 <= i < rs.len() && removed_has_id(rs[i], id) && (forall|j: int| 0 <= j < i ==> !removed_has_id(#[trigger] rs[j], id))
}
pub proof fn lemma_first_active(cs: Seq<v1::Constraint>, id: u64, i: int)
    requires 0 <= i < cs.len(), cs[i].id == id, forall|j: int| 0 <= j < i ==> (#[trigger] cs[j]).id != id
    ensures first_active(cs, id) == i
{
    let k = first_active(cs, id);
    assert(0 <= k < cs.len() && cs[k].id == id && (forall|j: int| 0 <= j < k ==> (#[trigger] cs[j]).id != id));
    if k < i { assert(cs[k].id != id); } else if i < k { assert(cs[i].id != id); }
}
pub proof fn lemma_first_removed(rs: Seq<v1::RemovedConstraint>, id: u64, i: int)
    requires 0 <= i < rs.len(), removed_has_id(rs[i], id), forall|j: int| 0 <= j < i ==> !removed_has_id(#[trigger] rs[j], id)
    ensures first_removed(rs, id) == i
{
    let k = first_removed(rs, id);
    assert(0 <= k < rs.len() && removed_has_id(rs[k], id) && (forall|j: int| 0 <= j < k ==> !removed_has_id(#[trigger] rs[j], id)));
    if k < i { assert(!removed_has_id(rs[k], id)); } else if i < k { assert(!removed_has_id(rs[i], id)); }
}
// the collection of all constraints, active ++ removed, as a multiset of whole Constraint values
// (id, function, equality and every metadata field)
pub open spec fn rem_wf(rs: Seq<v1::RemovedConstraint>) -> bool { forall|j: int| 0 <= j < rs.len() ==> (#[trigger] rs[j]).constraint is Some }
pub open spec fn rem_cs(rs: Seq<v1::RemovedConstraint>) -> Seq<v1::Constraint> { Seq::new(rs.len(), |j: int| rs[j].constraint->Some_0) }
pub open spec fn all_ms(i: v1::Instance) -> vstd::multiset::Multiset<v1::Constraint> {
    i.constraints@.to_multiset().add(rem_cs(i.removed_constraints@).to_multiset())
}
pub open spec fn ids_of(cs: Seq<v1::Constraint>) -> Seq<u64> { Seq::new(cs.len(), |j: int| cs[j].id) }
pub open spec fn ids_unique(i: v1::Instance) -> bool { (ids_of(i.constraints@) + ids_of(rem_cs(i.removed_constraints@))).no_duplicates() }
