// ===== spec/box_spec.rs : a point of a box of variable bounds (shared by C13 and C16) =====
pub open spec fn in_box(m: Map<u64, F64>, b: Map<VariableID, Bound>, ids: Set<u64>) -> bool {
    forall|k: u64| #[trigger] ids.contains(k) ==> m.contains_key(k) && m[k]@ is Fin
        && (b.contains_key(VariableID(k)) ==> contains(b[VariableID(k)], m[k]@->Fin_0))
}
pub open spec fn bounds_wf(b: Map<VariableID, Bound>) -> bool { forall|k: VariableID| #[trigger] b.contains_key(k) ==> b[k].wf() }
