// ===== spec/dep_spec.rs : value of a function depends only on the values of its ids (hand-written lemmas) =====
pub open spec fn submap(s1: Map<u64, F64>, s2: Map<u64, F64>) -> bool {
    forall|k: u64| #[trigger] s1.contains_key(k) ==> s2.contains_key(k) && s2[k] == s1[k]
}
pub proof fn lemma_lin_agree(t: Seq<v1::linear::Term>, n: int, s1: Map<u64, F64>, s2: Map<u64, F64>)
    requires submap(s1, s2), 0 <= n <= t.len(), ids_present(t, n, s1)
    ensures lin_sum(t, n, s1) == lin_sum(t, n, s2), ids_present(t, n, s2)
    decreases n
{
    if n > 0 {
        lemma_lin_agree(t, n - 1, s1, s2);
        assert(s1.contains_key(t[n - 1].id));
        assert forall|i: int| 0 <= i < n implies s2.contains_key((#[trigger] t[i]).id) by { assert(s1.contains_key(t[i].id)); }
    }
}
pub proof fn lemma_quad_agree(r: Seq<u64>, c: Seq<u64>, v: Seq<F64>, n: int, s1: Map<u64, F64>, s2: Map<u64, F64>)
    requires submap(s1, s2), 0 <= n <= r.len(), n <= c.len(), n <= v.len(), quad_present(r, c, n, s1)
    ensures quad_sum(r, c, v, n, s1) == quad_sum(r, c, v, n, s2), quad_present(r, c, n, s2)
    decreases n
{
    if n > 0 {
        lemma_quad_agree(r, c, v, n - 1, s1, s2);
        assert(s1.contains_key(r[n - 1]) && s1.contains_key(c[n - 1]));
        assert forall|i: int| 0 <= i < n implies s2.contains_key(#[trigger] r[i]) by { assert(s1.contains_key(r[i])); }
        assert forall|i: int| 0 <= i < n implies s2.contains_key(#[trigger] c[i]) by { assert(s1.contains_key(c[i])); }
    }
}
pub proof fn lemma_mono_agree(c: real, ids: Seq<u64>, j: int, s1: Map<u64, F64>, s2: Map<u64, F64>)
    requires submap(s1, s2), 0 <= j <= ids.len(), forall|i: int| 0 <= i < j ==> s1.contains_key(#[trigger] ids[i])
    ensures mono_val(c, ids, j, s1) == mono_val(c, ids, j, s2)
    decreases j
{
    if j > 0 { lemma_mono_agree(c, ids, j - 1, s1, s2); assert(s1.contains_key(ids[j - 1])); }
}
pub proof fn lemma_poly_agree(t: Seq<v1::Monomial>, n: int, s1: Map<u64, F64>, s2: Map<u64, F64>)
    requires submap(s1, s2), 0 <= n <= t.len(), poly_present(t, n, s1)
    ensures poly_sum(t, n, s1) == poly_sum(t, n, s2), poly_present(t, n, s2)
    decreases n
{
    if n > 0 {
        lemma_poly_agree(t, n - 1, s1, s2);
        assert forall|i: int| 0 <= i < t[n - 1].ids.len() implies s1.contains_key(#[trigger] t[n - 1].ids@[i]) by { assert(s1.contains_key(t[n - 1].ids[i])); }
        lemma_mono_agree(rv(t[n - 1].coefficient), t[n - 1].ids@, t[n - 1].ids.len() as int, s1, s2);
        assert forall|i: int, j: int| 0 <= i < n && 0 <= j < t[i].ids.len() implies s2.contains_key(#[trigger] t[i].ids[j]) by { assert(s1.contains_key(t[i].ids[j])); }
    }
}
pub proof fn lemma_fn_agree(f: v1::Function, s1: Map<u64, F64>, s2: Map<u64, F64>)
    requires submap(s1, s2), fn_present(f, s1)
    ensures fn_present(f, s2), fn_val(f, s1) == fn_val(f, s2)
{
    match f.function {
        Some(v1::function::Function::Constant(c)) => {}
        Some(v1::function::Function::Linear(l)) => { lemma_lin_agree(l.terms@, l.terms.len() as int, s1, s2); }
        Some(v1::function::Function::Quadratic(q)) => {
            if q.linear is Some { let l = q.linear->Some_0; lemma_lin_agree(l.terms@, l.terms.len() as int, s1, s2); }
            lemma_quad_agree(q.rows@, q.columns@, q.values@, quad_n(q), s1, s2);
        }
        Some(v1::function::Function::Polynomial(p)) => { lemma_poly_agree(p.terms@, p.terms.len() as int, s1, s2); }
        None => {}
    }
}
pub open spec fn disj(d: Map<u64, v1::Function>, s: Map<u64, F64>) -> bool { forall|k: u64| #[trigger] d.contains_key(k) ==> !s.contains_key(k) }
// "x is the value of f at s" in the sense of the evaluate contracts (C01)
pub open spec fn dep_ok(f: v1::Function, s: Map<u64, F64>, x: F64) -> bool { fn_present(f, s) && ec_value_ok(f, s, x) }
pub broadcast proof fn lemma_dep_ok_insert(f: v1::Function, s: Map<u64, F64>, x: F64, k: u64, v: F64)
    requires dep_ok(f, s, x), !s.contains_key(k)
    ensures #[trigger] dep_ok(f, s.insert(k, v), x)
{
    let s2 = s.insert(k, v);
    assert(submap(s, s2));
    lemma_fn_agree(f, s, s2);
    if state_fin(s2) { assert forall|j: u64| s.contains_key(j) implies fin(#[trigger] s[j]) by { assert(s2.contains_key(j) && s2[j] == s[j]); } }
}
// membership of a key in a pending list (index recursion, so push/pop/append need no existential witnesses)
pub open spec fn in_keys(v: Seq<(&u64, &v1::Function)>, n: int, k: u64) -> bool decreases n {
    n > 0 && (in_keys(v, n - 1, k) || *v[n - 1].0 == k)
}
pub proof fn lemma_in_keys_intro(v: Seq<(&u64, &v1::Function)>, n: int, j: int, k: u64)
    requires 0 <= j < n <= v.len(), *v[j].0 == k
    ensures in_keys(v, n, k)
    decreases n
{ if j < n - 1 { lemma_in_keys_intro(v, n - 1, j, k); } }
pub broadcast proof fn lemma_in_keys_drop_last(v: Seq<(&u64, &v1::Function)>, m: int, n: int, k: u64)
    requires 0 <= n <= m <= v.len()
    ensures #[trigger] in_keys(v.subrange(0, m), n, k) == in_keys(v, n, k)
    decreases n
{ if n > 0 { lemma_in_keys_drop_last(v, m, n - 1, k); assert(v.subrange(0, m)[n - 1] == v[n - 1]); } }
pub broadcast proof fn lemma_in_keys_push(v: Seq<(&u64, &v1::Function)>, e: (&u64, &v1::Function), m: int, k: u64)
    requires 0 <= m <= v.len() + 1
    ensures #[trigger] in_keys(v.push(e), m, k) == (if m == v.len() + 1 { in_keys(v, m - 1, k) || *e.0 == k } else { in_keys(v, m, k) })
    decreases m
{
    if m > 0 {
        lemma_in_keys_push(v, e, m - 1, k);
        if m == v.len() + 1 { assert(v.push(e)[m - 1] == e); } else { assert(v.push(e)[m - 1] == v[m - 1]); }
    }
}
pub broadcast proof fn lemma_in_keys_append_empty(a: Seq<(&u64, &v1::Function)>, b: Seq<(&u64, &v1::Function)>, n: int, k: u64)
    requires a.len() == 0, 0 <= n <= b.len()
    ensures #[trigger] in_keys(a + b, n, k) == in_keys(b, n, k)
    decreases n
{ if n > 0 { lemma_in_keys_append_empty(a, b, n - 1, k); assert((a + b)[n - 1] == b[n - 1]); } }
