// ===== spec/ppe_spec.rs : Polynomial::partial_evaluate - the merge it performs as a function of the inputs (hand-written, independent of /repo) =====
// accumulate (key, real value) items, dropping an entry when |sum| <= EPSILON (kacc of spec/kmerge_spec.rs with real-valued items: the values here are products
// computed by the code, which are not F64 objects of the input)
pub open spec fn racc<K>(it: Seq<(K, real)>, n: int, init: Map<K, real>) -> Map<K, real> decreases n {
    if n <= 0 { init } else {
        let prev = racc(it, n - 1, init); let k = it[n - 1].0;
        let v = (if prev.contains_key(k) { prev[k] } else { 0real }) + it[n - 1].1;
        if rabs(v) <= eps_real() { prev.remove(k) } else { prev.insert(k, v) }
    }
}
pub proof fn lemma_racc_ext<K>(a: Seq<(K, real)>, b: Seq<(K, real)>, n: int, init: Map<K, real>)
    requires 0 <= n <= a.len(), n <= b.len(), forall|i: int| 0 <= i < n ==> a[i] == b[i]
    ensures racc(a, n, init) == racc(b, n, init)
    decreases n
{ if n > 0 { lemma_racc_ext(a, b, n - 1, init); } }
// every stored value is outside the epsilon band (so that skipping an item equals adding 0)
pub open spec fn all_big<K>(a: Map<K, real>) -> bool { forall|k: K| #[trigger] a.contains_key(k) ==> rabs(a[k]) > eps_real() }
pub proof fn lemma_racc_big<K>(it: Seq<(K, real)>, n: int)
    requires 0 <= n <= it.len()
    ensures all_big(racc(it, n, Map::empty()))
    decreases n
{ if n > 0 { lemma_racc_big(it, n - 1); } }
pub proof fn lemma_racc_zero<K>(it: Seq<(K, real)>, n: int)
    requires 1 <= n <= it.len(), it[n - 1].1 == 0real
    ensures racc(it, n, Map::empty()) =~= racc(it, n - 1, Map::empty())
{ lemma_racc_big(it, n - 1); }
// the ids of a monomial that are not fixed (in order), and the product of the fixed values
pub open spec fn free_ids(ids: Seq<u64>, n: int, st: Map<u64, F64>) -> Seq<u64> decreases n {
    if n <= 0 { Seq::empty() } else { let p = free_ids(ids, n - 1, st); if st.contains_key(ids[n - 1]) { p } else { p.push(ids[n - 1]) } }
}
pub open spec fn fixed_prod(ids: Seq<u64>, n: int, st: Map<u64, F64>) -> real decreases n {
    if n <= 0 { 1real } else { let p = fixed_prod(ids, n - 1, st); if st.contains_key(ids[n - 1]) { p * rv(st[ids[n - 1]]) } else { p } }
}
pub proof fn lemma_free_ids_mem(ids: Seq<u64>, n: int, st: Map<u64, F64>, k: u64)
    requires 0 <= n <= ids.len()
    ensures free_ids(ids, n, st).contains(k) <==> (!st.contains_key(k) && exists|j: int| 0 <= j < n && ids[j] == k)
    decreases n
{
    if n > 0 {
        lemma_free_ids_mem(ids, n - 1, st, k);
        let p = free_ids(ids, n - 1, st);
        if !st.contains_key(ids[n - 1]) {
            let q = p.push(ids[n - 1]);
            if q.contains(k) { let i = choose|i: int| 0 <= i < q.len() && q[i] == k; if i < p.len() { assert(p[i] == k); assert(p.contains(k)); } }
            if p.contains(k) { let i = choose|i: int| 0 <= i < p.len() && p[i] == k; assert(q[i] == k); }
            if ids[n - 1] == k { assert(q[p.len() as int] == k); }
        }
    }
}
// the items of the merge: (unfixed ids, coefficient * product of the fixed values); a monomial with |coefficient| <= EPSILON is skipped (contributes 0)
pub open spec fn ppe_item(t: v1::Monomial, st: Map<u64, F64>) -> (Seq<u64>, real) {
    (free_ids(t.ids@, t.ids.len() as int, st), if rabs(rv(t.coefficient)) <= eps_real() { 0real } else { rv(t.coefficient) * fixed_prod(t.ids@, t.ids.len() as int, st) })
}
pub open spec fn ppe_items(t: Seq<v1::Monomial>, st: Map<u64, F64>) -> Seq<(Seq<u64>, real)> { Seq::new(t.len(), |i: int| ppe_item(t[i], st)) }
pub open spec fn ppe_map(p: v1::Polynomial, st: Map<u64, F64>) -> Map<Seq<u64>, real> { racc(ppe_items(p.terms@, st), p.terms.len() as int, Map::empty()) }
// the documented dropping, made explicit: whatever the specified merge loses (entries with |sum| <= EPSILON, monomials with |coefficient| <= EPSILON)
pub open spec fn poly_pe_rem(p: v1::Polynomial, st: Map<u64, F64>, m: Map<u64, F64>) -> real { polynomial_val(p, m) - ksum(ppe_map(p, st), pw(m)) }
