// ===== spec/bound_spec.rs : ghost definitions and lemmas for Bound (hand-written, independent of /repo) =====
pub open spec fn inv(lower: XR, upper: XR) -> bool {
    !(lower is NaN) && !(upper is NaN) && !(lower is PosInf) && !(upper is NegInf) && xr_le(lower, upper)
}
pub open spec fn contains(b: Bound, x: real) -> bool {
    xr_le(b.lower@, XR::Fin(x)) && xr_le(XR::Fin(x), b.upper@)
}
impl Bound {
    pub open spec fn wf(self) -> bool { inv(self.lower@, self.upper@) }
}
pub proof fn lemma_mul_corners(s: Bound, t: Bound, a: XR, b: XR, c: XR, d: XR)
    requires s.wf(), t.wf(),
        !(s.lower@ == XR::Fin(0real) && s.upper@ == XR::Fin(0real)),
        !(t.lower@ == XR::Fin(0real) && t.upper@ == XR::Fin(0real)),
        a == xr_mul(s.lower@, t.lower@), b == xr_mul(s.lower@, t.upper@),
        c == xr_mul(s.upper@, t.lower@), d == xr_mul(s.upper@, t.upper@),
    ensures
        inv(xr_min(xr_min(xr_min(a, b), c), d), xr_max(xr_max(xr_max(a, b), c), d)),
        forall|x: real, y: real| contains(s, x) && contains(t, y) ==>
            xr_le(xr_min(xr_min(xr_min(a, b), c), d), XR::Fin(x * y)) &&
            xr_le(XR::Fin(x * y), xr_max(xr_max(xr_max(a, b), c), d)),
{
    let lo = xr_min(xr_min(xr_min(a, b), c), d);
    let hi = xr_max(xr_max(xr_max(a, b), c), d);
    assert forall|x: real, y: real| contains(s, x) && contains(t, y) implies
            xr_le(lo, XR::Fin(x * y)) && xr_le(XR::Fin(x * y), hi) by {
        lemma_mul_point(s, t, a, b, c, d, x, y);
    }
    // non-emptiness: pick a point
    lemma_mul_inv(s, t, a, b, c, d);
}


pub proof fn lemma_fin_corners(l1: real, u1: real, l2: real, u2: real, x: real, y: real)
    requires l1 <= x <= u1, l2 <= y <= u2
    ensures
        (l1*l2 <= x*y || l1*u2 <= x*y || u1*l2 <= x*y || u1*u2 <= x*y),
        (l1*l2 >= x*y || l1*u2 >= x*y || u1*l2 >= x*y || u1*u2 >= x*y),
{
    // x*y is bilinear: between min and max over corners
    assert(l1*l2 <= x*y || l1*u2 <= x*y || u1*l2 <= x*y || u1*u2 <= x*y) by(nonlinear_arith)
        requires l1 <= x <= u1, l2 <= y <= u2;
    assert(l1*l2 >= x*y || l1*u2 >= x*y || u1*l2 >= x*y || u1*u2 >= x*y) by(nonlinear_arith)
        requires l1 <= x <= u1, l2 <= y <= u2;
}


// NaN-ignoring min/max of four: every non-NaN argument bounds the result
pub proof fn lemma_min4(a: XR, b: XR, c: XR, d: XR, v: XR)
    requires !(v is NaN), v == a || v == b || v == c || v == d
    ensures xr_le(xr_min(xr_min(xr_min(a, b), c), d), v), !(xr_min(xr_min(xr_min(a, b), c), d) is NaN)
{}
pub proof fn lemma_max4(a: XR, b: XR, c: XR, d: XR, v: XR)
    requires !(v is NaN), v == a || v == b || v == c || v == d
    ensures xr_le(v, xr_max(xr_max(xr_max(a, b), c), d)), !(xr_max(xr_max(xr_max(a, b), c), d) is NaN)
{}
pub proof fn lemma_le_trans(a: XR, b: XR, c: XR)
    requires xr_le(a, b), xr_le(b, c) ensures xr_le(a, c) {}

// one-sided monotonicity of e*y in e, extended
pub proof fn lemma_mono(e: XR, x: real, y: real)
    requires !(e is NaN)
    ensures
        // e <= x, y > 0  ==> e*y <= x*y
        xr_le(e, XR::Fin(x)) && y > 0real ==> xr_le(xr_mul(e, XR::Fin(y)), XR::Fin(x * y)),
        xr_le(e, XR::Fin(x)) && y < 0real ==> xr_le(XR::Fin(x * y), xr_mul(e, XR::Fin(y))),
        xr_le(XR::Fin(x), e) && y > 0real ==> xr_le(XR::Fin(x * y), xr_mul(e, XR::Fin(y))),
        xr_le(XR::Fin(x), e) && y < 0real ==> xr_le(xr_mul(e, XR::Fin(y)), XR::Fin(x * y)),
{
    match e {
        XR::Fin(ev) => {
            assert(ev <= x && y > 0real ==> ev * y <= x * y) by(nonlinear_arith);
            assert(ev <= x && y < 0real ==> ev * y >= x * y) by(nonlinear_arith);
            assert(ev >= x && y > 0real ==> ev * y >= x * y) by(nonlinear_arith);
            assert(ev >= x && y < 0real ==> ev * y <= x * y) by(nonlinear_arith);
        }
        _ => {}
    }
}


pub open spec fn below(v: XR, p: XR) -> bool { !(v is NaN) && xr_le(v, p) }
pub open spec fn above(v: XR, p: XR) -> bool { !(v is NaN) && xr_le(p, v) }

pub proof fn lemma_mul_point(s: Bound, t: Bound, a: XR, b: XR, c: XR, d: XR, x: real, y: real)
    requires s.wf(), t.wf(),
        !(s.lower@ == XR::Fin(0real) && s.upper@ == XR::Fin(0real)),
        !(t.lower@ == XR::Fin(0real) && t.upper@ == XR::Fin(0real)),
        a == xr_mul(s.lower@, t.lower@), b == xr_mul(s.lower@, t.upper@),
        c == xr_mul(s.upper@, t.lower@), d == xr_mul(s.upper@, t.upper@),
        contains(s, x), contains(t, y),
    ensures
        xr_le(xr_min(xr_min(xr_min(a, b), c), d), XR::Fin(x * y)),
        xr_le(XR::Fin(x * y), xr_max(xr_max(xr_max(a, b), c), d)),
{
    let p = XR::Fin(x * y);
    lemma_corner_below(s.lower@, s.upper@, t.lower@, t.upper@, x, y);
    lemma_corner_above(s.lower@, s.upper@, t.lower@, t.upper@, x, y);
    let lo = xr_min(xr_min(xr_min(a, b), c), d);
    let hi = xr_max(xr_max(xr_max(a, b), c), d);
    if below(a, p) { lemma_min4(a, b, c, d, a); lemma_le_trans(lo, a, p); }
    else if below(b, p) { lemma_min4(a, b, c, d, b); lemma_le_trans(lo, b, p); }
    else if below(c, p) { lemma_min4(a, b, c, d, c); lemma_le_trans(lo, c, p); }
    else { lemma_min4(a, b, c, d, d); lemma_le_trans(lo, d, p); }
    if above(a, p) { lemma_max4(a, b, c, d, a); lemma_le_trans(p, a, hi); }
    else if above(b, p) { lemma_max4(a, b, c, d, b); lemma_le_trans(p, b, hi); }
    else if above(c, p) { lemma_max4(a, b, c, d, c); lemma_le_trans(p, c, hi); }
    else { lemma_max4(a, b, c, d, d); lemma_le_trans(p, d, hi); }
}

pub open spec fn okb(l: XR, u: XR) -> bool { inv(l, u) && !(l == XR::Fin(0real) && u == XR::Fin(0real)) }


// e ≤ y (extended), finite c: c*e vs c*y
pub proof fn lemma_mono_r(c: real, e: XR, y: real)
    requires !(e is NaN)
    ensures
        xr_le(e, XR::Fin(y)) && c > 0real ==> below(xr_mul(XR::Fin(c), e), XR::Fin(c * y)),
        xr_le(e, XR::Fin(y)) && c < 0real ==> above(xr_mul(XR::Fin(c), e), XR::Fin(c * y)),
        xr_le(XR::Fin(y), e) && c > 0real ==> above(xr_mul(XR::Fin(c), e), XR::Fin(c * y)),
        xr_le(XR::Fin(y), e) && c < 0real ==> below(xr_mul(XR::Fin(c), e), XR::Fin(c * y)),
{
    match e {
        XR::Fin(ev) => {
            assert(ev <= y && c > 0real ==> c * ev <= c * y) by(nonlinear_arith);
            assert(ev <= y && c < 0real ==> c * ev >= c * y) by(nonlinear_arith);
            assert(ev >= y && c > 0real ==> c * ev >= c * y) by(nonlinear_arith);
            assert(ev >= y && c < 0real ==> c * ev <= c * y) by(nonlinear_arith);
        }
        _ => {}
    }
}
// e ≤ x (extended), finite y: e*y vs x*y
pub proof fn lemma_mono_l(e: XR, x: real, y: real)
    requires !(e is NaN)
    ensures
        xr_le(e, XR::Fin(x)) && y > 0real ==> below(xr_mul(e, XR::Fin(y)), XR::Fin(x * y)),
        xr_le(e, XR::Fin(x)) && y < 0real ==> above(xr_mul(e, XR::Fin(y)), XR::Fin(x * y)),
        xr_le(XR::Fin(x), e) && y > 0real ==> above(xr_mul(e, XR::Fin(y)), XR::Fin(x * y)),
        xr_le(XR::Fin(x), e) && y < 0real ==> below(xr_mul(e, XR::Fin(y)), XR::Fin(x * y)),
{
    match e {
        XR::Fin(ev) => {
            assert(ev <= x && y > 0real ==> ev * y <= x * y) by(nonlinear_arith);
            assert(ev <= x && y < 0real ==> ev * y >= x * y) by(nonlinear_arith);
            assert(ev >= x && y > 0real ==> ev * y >= x * y) by(nonlinear_arith);
            assert(ev >= x && y < 0real ==> ev * y <= x * y) by(nonlinear_arith);
        }
        _ => {}
    }
}

// generic two-step: corner(es, et) is below x*y when es is the right s-endpoint for sign(y)
// and et the right t-endpoint for sign(es)
pub proof fn lemma_two_step_below(es: XR, et: XR, x: real, y: real)
    requires !(es is NaN), !(et is NaN),
        // step 1: es*y <= x*y
        (y > 0real && xr_le(es, XR::Fin(x))) || (y < 0real && xr_le(XR::Fin(x), es)),
        // step 2: es*et <= es*y
        (xr_sign(es) > 0 && xr_le(et, XR::Fin(y))) || (xr_sign(es) < 0 && xr_le(XR::Fin(y), et)),
    ensures below(xr_mul(es, et), XR::Fin(x * y))
{
    lemma_mono_l(es, x, y);
    match es {
        XR::Fin(c) => {
            lemma_mono_r(c, et, y);
            lemma_le_trans(xr_mul(es, et), XR::Fin(c * y), XR::Fin(x * y));
        }
        _ => {
            // es infinite: es*et is -inf
            match et { XR::Fin(tv) => { }, _ => {} }
        }
    }
}

pub proof fn lemma_corner_below(sl: XR, su: XR, tl: XR, tu: XR, x: real, y: real)
    requires okb(sl, su), okb(tl, tu),
        xr_le(sl, XR::Fin(x)), xr_le(XR::Fin(x), su), xr_le(tl, XR::Fin(y)), xr_le(XR::Fin(y), tu),
    ensures ({ let p = XR::Fin(x * y);
        below(xr_mul(sl, tl), p) || below(xr_mul(sl, tu), p) || below(xr_mul(su, tl), p) || below(xr_mul(su, tu), p) })
{
    let p = XR::Fin(x * y);
    if y > 0real {
        if xr_sign(sl) > 0 { lemma_two_step_below(sl, tl, x, y); assert(below(xr_mul(sl, tl), p)); }
        else if xr_sign(sl) < 0 { lemma_two_step_below(sl, tu, x, y); assert(below(xr_mul(sl, tu), p)); }
        else {
            assert(x * y >= 0real) by(nonlinear_arith) requires x >= 0real, y > 0real;
            if tl is Fin { let tv = tl->Fin_0; assert(0real * tv == 0real) by(nonlinear_arith); assert(below(xr_mul(sl, tl), p)); }
            else if tu is Fin { let tv = tu->Fin_0; assert(0real * tv == 0real) by(nonlinear_arith); assert(below(xr_mul(sl, tu), p)); }
            else { assert(xr_mul(su, tl) == XR::NegInf); assert(below(xr_mul(su, tl), p)); }
        }
    } else if y < 0real {
        if xr_sign(su) > 0 { lemma_two_step_below(su, tl, x, y); assert(below(xr_mul(su, tl), p)); }
        else if xr_sign(su) < 0 { lemma_two_step_below(su, tu, x, y); assert(below(xr_mul(su, tu), p)); }
        else {
            assert(x * y >= 0real) by(nonlinear_arith) requires x <= 0real, y < 0real;
            if tl is Fin { let tv = tl->Fin_0; assert(0real * tv == 0real) by(nonlinear_arith); assert(below(xr_mul(su, tl), p)); }
            else if tu is Fin { let tv = tu->Fin_0; assert(0real * tv == 0real) by(nonlinear_arith); assert(below(xr_mul(su, tu), p)); }
            else { assert(xr_mul(sl, tu) == XR::NegInf); assert(below(xr_mul(sl, tu), p)); }
        }
    } else {
        assert(x * y == 0real) by(nonlinear_arith) requires y == 0real;
        lemma_sign_prod(sl, tl); lemma_sign_prod(sl, tu); lemma_sign_prod(su, tl); lemma_sign_prod(su, tu);
        if xr_sign(tl) < 0 {
            if xr_sign(su) > 0 { assert(below(xr_mul(su, tl), p)); }
            else if xr_sign(tu) > 0 { assert(xr_sign(sl) < 0); assert(below(xr_mul(sl, tu), p)); }
            else { assert(tu == XR::Fin(0real)); assert(su is Fin); assert(below(xr_mul(su, tu), p)); }
        } else {
            assert(tl == XR::Fin(0real)); assert(xr_sign(tu) > 0);
            if xr_sign(sl) < 0 { assert(below(xr_mul(sl, tu), p)); }
            else { assert(sl is Fin); assert(below(xr_mul(sl, tl), p)); }
        }
    }
}

// sign of a corner product
pub proof fn lemma_sign_prod(a: XR, b: XR)
    requires !(a is NaN), !(b is NaN)
    ensures
        xr_sign(a) * xr_sign(b) < 0 ==> below(xr_mul(a, b), XR::Fin(0real)),
        xr_sign(a) * xr_sign(b) > 0 ==> above(xr_mul(a, b), XR::Fin(0real)),
        (a is Fin && b is Fin && (xr_sign(a) == 0 || xr_sign(b) == 0)) ==> xr_mul(a, b) == XR::Fin(0real),
{
    match (a, b) {
        (XR::Fin(x), XR::Fin(y)) => {
            assert(x > 0real && y < 0real ==> x * y < 0real) by(nonlinear_arith);
            assert(x < 0real && y > 0real ==> x * y < 0real) by(nonlinear_arith);
            assert(x > 0real && y > 0real ==> x * y > 0real) by(nonlinear_arith);
            assert(x < 0real && y < 0real ==> x * y > 0real) by(nonlinear_arith);
            assert(x == 0real || y == 0real ==> x * y == 0real) by(nonlinear_arith);
        }
        _ => {}
    }
}


pub proof fn lemma_two_step_above(es: XR, et: XR, x: real, y: real)
    requires !(es is NaN), !(et is NaN),
        (y > 0real && xr_le(XR::Fin(x), es)) || (y < 0real && xr_le(es, XR::Fin(x))),
        (xr_sign(es) > 0 && xr_le(XR::Fin(y), et)) || (xr_sign(es) < 0 && xr_le(et, XR::Fin(y))),
    ensures above(xr_mul(es, et), XR::Fin(x * y))
{
    lemma_mono_l(es, x, y);
    match es {
        XR::Fin(c) => {
            lemma_mono_r(c, et, y);
            lemma_le_trans(XR::Fin(x * y), XR::Fin(c * y), xr_mul(es, et));
        }
        _ => { match et { XR::Fin(tv) => { }, _ => {} } }
    }
}

pub proof fn lemma_corner_above(sl: XR, su: XR, tl: XR, tu: XR, x: real, y: real)
    requires okb(sl, su), okb(tl, tu),
        xr_le(sl, XR::Fin(x)), xr_le(XR::Fin(x), su), xr_le(tl, XR::Fin(y)), xr_le(XR::Fin(y), tu),
    ensures ({ let p = XR::Fin(x * y);
        above(xr_mul(sl, tl), p) || above(xr_mul(sl, tu), p) || above(xr_mul(su, tl), p) || above(xr_mul(su, tu), p) })
{
    let p = XR::Fin(x * y);
    if y > 0real {
        if xr_sign(su) > 0 { lemma_two_step_above(su, tu, x, y); assert(above(xr_mul(su, tu), p)); }
        else if xr_sign(su) < 0 { lemma_two_step_above(su, tl, x, y); assert(above(xr_mul(su, tl), p)); }
        else {
            assert(x * y <= 0real) by(nonlinear_arith) requires x <= 0real, y > 0real;
            if tl is Fin { let tv = tl->Fin_0; assert(0real * tv == 0real) by(nonlinear_arith); assert(above(xr_mul(su, tl), p)); }
            else if tu is Fin { let tv = tu->Fin_0; assert(0real * tv == 0real) by(nonlinear_arith); assert(above(xr_mul(su, tu), p)); }
            else { assert(xr_mul(sl, tl) == XR::PosInf); assert(above(xr_mul(sl, tl), p)); }
        }
    } else if y < 0real {
        if xr_sign(sl) > 0 { lemma_two_step_above(sl, tu, x, y); assert(above(xr_mul(sl, tu), p)); }
        else if xr_sign(sl) < 0 { lemma_two_step_above(sl, tl, x, y); assert(above(xr_mul(sl, tl), p)); }
        else {
            assert(x * y <= 0real) by(nonlinear_arith) requires x >= 0real, y < 0real;
            if tl is Fin { let tv = tl->Fin_0; assert(0real * tv == 0real) by(nonlinear_arith); assert(above(xr_mul(sl, tl), p)); }
            else if tu is Fin { let tv = tu->Fin_0; assert(0real * tv == 0real) by(nonlinear_arith); assert(above(xr_mul(sl, tu), p)); }
            else { assert(xr_mul(su, tu) == XR::PosInf); assert(above(xr_mul(su, tu), p)); }
        }
    } else {
        assert(x * y == 0real) by(nonlinear_arith) requires y == 0real;
        lemma_sign_prod(sl, tl); lemma_sign_prod(sl, tu); lemma_sign_prod(su, tl); lemma_sign_prod(su, tu);
        // y == 0 lies in t and t != [0,0]: tl < 0 or tu > 0
        if xr_sign(tl) < 0 {
            if xr_sign(sl) < 0 { assert(above(xr_mul(sl, tl), p)); }
            else if xr_sign(tu) > 0 { assert(xr_sign(su) > 0); assert(above(xr_mul(su, tu), p)); }
            else { assert(tu == XR::Fin(0real)); assert(sl is Fin); assert(above(xr_mul(sl, tu), p)); }
        } else {
            assert(tl == XR::Fin(0real)); assert(xr_sign(tu) > 0);
            if xr_sign(su) > 0 { assert(above(xr_mul(su, tu), p)); }
            else { assert(su is Fin); assert(above(xr_mul(su, tl), p)); }
        }
    }
}

pub open spec fn pick(l: XR, u: XR) -> real {
    match l { XR::Fin(v) => v, _ => match u { XR::Fin(w) => w, _ => 0real } }
}
pub proof fn lemma_pick(l: XR, u: XR)
    requires inv(l, u)
    ensures xr_le(l, XR::Fin(pick(l, u))), xr_le(XR::Fin(pick(l, u)), u)
{}

pub proof fn lemma_mul_inv(s: Bound, t: Bound, a: XR, b: XR, c: XR, d: XR)
    requires s.wf(), t.wf(),
        !(s.lower@ == XR::Fin(0real) && s.upper@ == XR::Fin(0real)),
        !(t.lower@ == XR::Fin(0real) && t.upper@ == XR::Fin(0real)),
        a == xr_mul(s.lower@, t.lower@), b == xr_mul(s.lower@, t.upper@),
        c == xr_mul(s.upper@, t.lower@), d == xr_mul(s.upper@, t.upper@),
    ensures
        inv(xr_min(xr_min(xr_min(a, b), c), d), xr_max(xr_max(xr_max(a, b), c), d)),
{
    let x = pick(s.lower@, s.upper@);
    let y = pick(t.lower@, t.upper@);
    lemma_pick(s.lower@, s.upper@);
    lemma_pick(t.lower@, t.upper@);
    lemma_mul_point(s, t, a, b, c, d, x, y);
    let lo = xr_min(xr_min(xr_min(a, b), c), d);
    let hi = xr_max(xr_max(xr_max(a, b), c), d);
    lemma_le_trans(lo, XR::Fin(x * y), hi);
}

pub open spec fn contains_int(b: Bound, k: real) -> bool { is_intr(k) && contains(b, k) }
pub open spec fn is_int(x: real) -> bool { is_intr(x) }
pub open spec fn fin_wf(b: Bound) -> bool { b.wf() && b.lower@ is Fin && b.upper@ is Fin }
pub proof fn lemma_scale(b: Bound, c: real)
    requires b.wf(), c != 0real || fin_wf(b)
    ensures
        c >= 0real ==> inv(xr_mul(b.lower@, XR::Fin(c)), xr_mul(b.upper@, XR::Fin(c))),
        c >= 0real ==> forall|x: real| contains(b, x) ==> xr_le(xr_mul(b.lower@, XR::Fin(c)), XR::Fin(x * c)) && xr_le(XR::Fin(x * c), xr_mul(b.upper@, XR::Fin(c))),
        c < 0real ==> inv(xr_mul(b.upper@, XR::Fin(c)), xr_mul(b.lower@, XR::Fin(c))),
        c < 0real ==> forall|x: real| contains(b, x) ==> xr_le(xr_mul(b.upper@, XR::Fin(c)), XR::Fin(x * c)) && xr_le(XR::Fin(x * c), xr_mul(b.lower@, XR::Fin(c))),
{
    assert forall|x: real| contains(b, x) implies
        (c >= 0real ==> xr_le(xr_mul(b.lower@, XR::Fin(c)), XR::Fin(x * c)) && xr_le(XR::Fin(x * c), xr_mul(b.upper@, XR::Fin(c)))) &&
        (c < 0real ==> xr_le(xr_mul(b.upper@, XR::Fin(c)), XR::Fin(x * c)) && xr_le(XR::Fin(x * c), xr_mul(b.lower@, XR::Fin(c)))) by {
        lemma_scale_point(b, c, x);
    }
    let x0 = pick(b.lower@, b.upper@);
    lemma_pick(b.lower@, b.upper@);
    lemma_scale_point(b, c, x0);
    if c >= 0real {
        lemma_le_trans(xr_mul(b.lower@, XR::Fin(c)), XR::Fin(x0 * c), xr_mul(b.upper@, XR::Fin(c)));
    } else {
        lemma_le_trans(xr_mul(b.upper@, XR::Fin(c)), XR::Fin(x0 * c), xr_mul(b.lower@, XR::Fin(c)));
    }
}
pub proof fn lemma_scale_point(b: Bound, c: real, x: real)
    requires b.wf(), c != 0real || fin_wf(b), contains(b, x)
    ensures
        c >= 0real ==> below(xr_mul(b.lower@, XR::Fin(c)), XR::Fin(x * c)) && above(xr_mul(b.upper@, XR::Fin(c)), XR::Fin(x * c)),
        c < 0real ==> below(xr_mul(b.upper@, XR::Fin(c)), XR::Fin(x * c)) && above(xr_mul(b.lower@, XR::Fin(c)), XR::Fin(x * c)),
{
    lemma_mono_l(b.lower@, x, c);
    lemma_mono_l(b.upper@, x, c);
    if c == 0real {
        assert(x * c == 0real) by(nonlinear_arith) requires c == 0real;
        let l = b.lower@->Fin_0; let u = b.upper@->Fin_0;
        assert(l * c == 0real) by(nonlinear_arith) requires c == 0real;
        assert(u * c == 0real) by(nonlinear_arith) requires c == 0real;
    }
}

pub proof fn lemma_ceil_le(x: real, k: real)
    requires is_intr(k), x <= k
    ensures rceil(x) <= k, is_intr(rceil(x))
{
    ax_ceil(x);
    ax_discrete(rceil(x), k);
}
pub proof fn lemma_floor_ge(x: real, k: real)
    requires is_intr(k), k <= x
    ensures k <= rfloor(x), is_intr(rfloor(x))
{
    ax_floor(x);
    ax_discrete(k, rfloor(x));
}
pub proof fn lemma_int_round(b: Bound)
    requires b.wf(), exists|k: real| contains_int(b, k)
    ensures ({
        let a = 1real / 1000000real;
        let lo = if b.lower@ is Fin { XR::Fin(rceil(b.lower@->Fin_0 - a)) } else { b.lower@ };
        let hi = if b.upper@ is Fin { XR::Fin(rfloor(b.upper@->Fin_0 + a)) } else { b.upper@ };
        &&& inv(lo, hi)
        &&& forall|k: real| contains_int(b, k) ==> xr_le(lo, XR::Fin(k)) && xr_le(XR::Fin(k), hi)
        &&& (lo is Fin ==> is_int(lo->Fin_0))
        &&& (hi is Fin ==> is_int(hi->Fin_0))
    })
{
    let a = 1real / 1000000real;
    let k0 = choose|k: real| contains_int(b, k);
    assert forall|k: real| contains_int(b, k) implies
        (b.lower@ is Fin ==> rceil(b.lower@->Fin_0 - a) <= k) && (b.upper@ is Fin ==> k <= rfloor(b.upper@->Fin_0 + a)) by {
        if b.lower@ is Fin { lemma_ceil_le(b.lower@->Fin_0 - a, k); }
        if b.upper@ is Fin { lemma_floor_ge(b.upper@->Fin_0 + a, k); }
    }
    assert(contains_int(b, k0));
    if b.lower@ is Fin { lemma_ceil_le(b.lower@->Fin_0 - a, k0); }
    if b.upper@ is Fin { lemma_floor_ge(b.upper@->Fin_0 + a, k0); }
}

pub proof fn lemma_rpow_mono(x: real, y: real, n: nat)
    requires 0real <= x <= y
    ensures 0real <= rpow(x, n) <= rpow(y, n)
    decreases n
{
    if n > 0 {
        lemma_rpow_mono(x, y, (n - 1) as nat);
        let a = rpow(x, (n - 1) as nat); let b = rpow(y, (n - 1) as nat);
        assert(0real <= a * x <= b * y) by(nonlinear_arith) requires 0real <= a <= b, 0real <= x <= y;
    }
}
pub proof fn lemma_rpow_neg(x: real, n: nat)
    ensures rpow(-x, n) == (if n % 2 == 0 { rpow(x, n) } else { -rpow(x, n) })
    decreases n
{
    if n > 0 {
        lemma_rpow_neg(x, (n - 1) as nat);
        let a = rpow(x, (n - 1) as nat);
        assert(a * (-x) == -(a * x)) by(nonlinear_arith);
        assert((-a) * (-x) == a * x) by(nonlinear_arith);
    }
}
pub proof fn lemma_rpow_abs_even(x: real, n: nat)
    requires n % 2 == 0
    ensures rpow(x, n) == rpow(rabs(x), n), rpow(x, n) >= 0real
{
    lemma_rpow_neg(x, n);
    if x < 0real { lemma_rpow_neg(-x, n); }
    lemma_rpow_mono(0real, rabs(x), n);
}
pub proof fn lemma_rpow_odd_mono(x: real, y: real, n: nat)
    requires x <= y, n % 2 == 1
    ensures rpow(x, n) <= rpow(y, n)
{
    if x >= 0real { lemma_rpow_mono(x, y, n); }
    else if y <= 0real {
        lemma_rpow_neg(-x, n); lemma_rpow_neg(-y, n);
        lemma_rpow_mono(-y, -x, n);
    } else {
        lemma_rpow_neg(-x, n); lemma_rpow_mono(0real, -x, n); lemma_rpow_mono(0real, y, n);
    }
}
// enclosure of x^n for x in [l,u], endpoints extended
pub open spec fn pow_point_ok(b: Bound, n: nat, x: real) -> bool {
    &&& (n % 2 == 1 ==> xr_le(xr_powi(b.lower@, n as int), XR::Fin(rpow(x, n))) && xr_le(XR::Fin(rpow(x, n)), xr_powi(b.upper@, n as int)))
    &&& (n % 2 == 0 && xr_le(XR::Fin(0real), b.lower@) ==> xr_le(xr_powi(b.lower@, n as int), XR::Fin(rpow(x, n))) && xr_le(XR::Fin(rpow(x, n)), xr_powi(b.upper@, n as int)))
    &&& (n % 2 == 0 && xr_le(b.upper@, XR::Fin(0real)) ==> xr_le(xr_powi(b.upper@, n as int), XR::Fin(rpow(x, n))) && xr_le(XR::Fin(rpow(x, n)), xr_powi(b.lower@, n as int)))
    &&& (n % 2 == 0 ==> 0real <= rpow(x, n) && xr_le(XR::Fin(rpow(x, n)), xr_max(xr_powi(xr_abs(b.upper@), n as int), xr_powi(xr_abs(b.lower@), n as int))))
}
pub proof fn lemma_pow_point(b: Bound, n: nat, x: real)
    requires b.wf(), contains(b, x)
    ensures
        pow_point_ok(b, n, x),
        n % 2 == 1 ==> xr_le(xr_powi(b.lower@, n as int), XR::Fin(rpow(x, n))) && xr_le(XR::Fin(rpow(x, n)), xr_powi(b.upper@, n as int)),
        n % 2 == 0 && xr_le(XR::Fin(0real), b.lower@) ==> xr_le(xr_powi(b.lower@, n as int), XR::Fin(rpow(x, n))) && xr_le(XR::Fin(rpow(x, n)), xr_powi(b.upper@, n as int)),
        n % 2 == 0 && xr_le(b.upper@, XR::Fin(0real)) ==> xr_le(xr_powi(b.upper@, n as int), XR::Fin(rpow(x, n))) && xr_le(XR::Fin(rpow(x, n)), xr_powi(b.lower@, n as int)),
        n % 2 == 0 ==> 0real <= rpow(x, n) && xr_le(XR::Fin(rpow(x, n)), xr_max(xr_powi(xr_abs(b.upper@), n as int), xr_powi(xr_abs(b.lower@), n as int))),
{
    if n == 0 { } else {
    if n % 2 == 1 {
        if b.lower@ is Fin { lemma_rpow_odd_mono(b.lower@->Fin_0, x, n); }
        if b.upper@ is Fin { lemma_rpow_odd_mono(x, b.upper@->Fin_0, n); }
    } else {
        lemma_rpow_abs_even(x, n);
        if b.lower@ is Fin { lemma_rpow_abs_even(b.lower@->Fin_0, n); }
        if b.upper@ is Fin { lemma_rpow_abs_even(b.upper@->Fin_0, n); }
        if xr_le(XR::Fin(0real), b.lower@) {
            lemma_rpow_mono(b.lower@->Fin_0, x, n);
            if b.upper@ is Fin { lemma_rpow_mono(x, b.upper@->Fin_0, n); }
        }
        if xr_le(b.upper@, XR::Fin(0real)) {
            lemma_rpow_mono(-(b.upper@->Fin_0), -x, n);
            if b.lower@ is Fin { lemma_rpow_mono(-x, -(b.lower@->Fin_0), n); }
        }
        // straddling / general: |x| <= max(|l|,|u|)
        if x >= 0real { if b.upper@ is Fin { lemma_rpow_mono(x, rabs(b.upper@->Fin_0), n); } }
        else { if b.lower@ is Fin { lemma_rpow_mono(-x, rabs(b.lower@->Fin_0), n); } }
    } }
}
