// ===== spec/parse_spec2.rs : contract vocabulary of TryFrom<v1::Instance> (needs the Parse impls in scope) =====
// ---- TryFrom<v1::Instance> ----
pub open spec fn last_ctx(e: ParseError, m: StrLit, f: StrLit) -> bool { e.context@.len() > 0 && e.context@.last() == ctx(m, f) }
pub open spec fn deps_ok(d: Map<u64, v1::Function>, dm: Map<VariableID, DecisionVariable>) -> bool {
    forall|k: u64| #[trigger] d.contains_key(k) ==> dm.contains_key(VariableID(k)) && d[k].p_ok(())
}
pub open spec fn deps_out(d: Map<u64, v1::Function>, o: Map<VariableID, Function>) -> bool {
    &&& forall|k: u64| #[trigger] d.contains_key(k) ==> o.contains_key(VariableID(k)) && d[k].p_out((), o[VariableID(k)])
    &&& forall|x: VariableID| #[trigger] o.contains_key(x) ==> d.contains_key(x.0)
}
// what the conversion checks: every rule of the property except "used ids are defined" (see known finding D7)
pub open spec fn typed_parts_ok(v: v1::Instance, o: Instance) -> bool {
    &&& sense_from_i32(v.sense).p_ok(()) && sense_from_i32(v.sense).p_out((), o.sense)
    &&& v.decision_variables.p_ok(()) && v.decision_variables.p_out((), o.decision_variables)
    &&& v.objective is Some && v.objective->Some_0.p_ok(()) && v.objective->Some_0.p_out((), o.objective)
    &&& v.constraints.p_ok(()) && v.constraints.p_out((), o.constraints)
    &&& v.removed_constraints.p_ok(o.constraints) && v.removed_constraints.p_out(o.constraints, o.removed_constraints)
    &&& deps_ok(v.decision_variable_dependency@, o.decision_variables@) && deps_out(v.decision_variable_dependency@, o.decision_variable_dependency@)
    &&& (v.constraint_hints is Some ==> v.constraint_hints->Some_0.p_ok((o.decision_variables, o.constraints))
            && v.constraint_hints->Some_0.p_out((o.decision_variables, o.constraints), o.constraint_hints))
    &&& (v.constraint_hints is None ==> o.constraint_hints.one_hot_constraints@.len() == 0 && o.constraint_hints.sos1_constraints@.len() == 0)
    &&& o.parameters == v.parameters && o.description == v.description
}
// a rejection names a violated rule: the failing part, reported under ommx.v1.Instance[<field>]
pub open spec fn typed_reject(v: v1::Instance, e: ParseError) -> bool {
    let m = sl!("ommx.v1.Instance");
    ||| (!sense_from_i32(v.sense).p_ok(()) && last_ctx(e, m, sl!("sense")))
    ||| (!v.decision_variables.p_ok(()) && last_ctx(e, m, sl!("decision_variables")))
    ||| (v.objective is None && err_at(e, RawParseError::MissingField { message: m, field: sl!("objective") }, seq![]))
    ||| (v.objective is Some && !v.objective->Some_0.p_ok(()) && last_ctx(e, m, sl!("objective")))
    ||| (!v.constraints.p_ok(()) && last_ctx(e, m, sl!("constraints")))
    ||| (exists|cm: HashMap<ConstraintID, Constraint>| #![trigger v.removed_constraints.p_ok(cm)] v.constraints.p_out((), cm) && !v.removed_constraints.p_ok(cm)
            && last_ctx(e, m, sl!("removed_constraints")))
    ||| (exists|dm: HashMap<VariableID, DecisionVariable>| #![trigger deps_ok(v.decision_variable_dependency@, dm@)] v.decision_variables.p_out((), dm)
            && !deps_ok(v.decision_variable_dependency@, dm@) && last_ctx(e, m, sl!("decision_variable_dependency")))
    ||| (v.constraint_hints is Some && exists|c: HintCtx| #![trigger v.constraint_hints->Some_0.p_ok(c)] v.decision_variables.p_out((), c.0) && v.constraints.p_out((), c.1)
            && !v.constraint_hints->Some_0.p_ok(c) && last_ctx(e, m, sl!("constraint_hints")))
}
// ids used by the typed instance's functions are defined (validation rule that the conversion must also enforce)
pub open spec fn typed_used_defined(v: v1::Instance) -> bool {
    inst_used(v).subset_of(dv_ids(v.decision_variables@, v.decision_variables.len() as int))
}
