// ===== property lemma of C12: the set of values of the returned expression over all bit assignments is exactly ceil(l)..=floor(u) =====
pub proof fn lemma_logenc_complete(n: nat, uu: real, lo: real)
    requires n >= 1, is_intr(uu), is_intr(lo), p2((n - 1) as nat) <= uu < p2(n)
    ensures
        // every assignment of the n bits gives an integer in lo..=lo+uu
        forall|bits: Seq<bool>| bits.len() == n ==> is_intr(lo + #[trigger] enc(bits, n, n, uu)) && lo <= lo + enc(bits, n, n, uu) <= lo + uu,
        // every integer in lo..=lo+uu is the value of some assignment
        forall|v: real| is_intr(v) && lo <= v <= lo + uu ==> exists|bits: Seq<bool>| bits.len() == n && lo + #[trigger] enc(bits, n, n, uu) == v,
{
    assert forall|bits: Seq<bool>| bits.len() == n implies is_intr(lo + #[trigger] enc(bits, n, n, uu)) && lo <= lo + enc(bits, n, n, uu) <= lo + uu by {
        lemma_enc_in_range(bits, n, uu);
        ax_int_add(lo, enc(bits, n, n, uu));
    }
    assert forall|v: real| is_intr(v) && lo <= v <= lo + uu implies exists|bits: Seq<bool>| bits.len() == n && lo + #[trigger] enc(bits, n, n, uu) == v by {
        ax_int_add(v, lo);
        let bits = lemma_enc_onto(v - lo, n, uu);
        assert(bits.len() == n && lo + enc(bits, n, n, uu) == v);
    }
}
