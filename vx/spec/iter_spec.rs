// ===== spec/iter_spec.rs : the term lists yielded by the term iterators of &Linear / &Quadratic / &Function, and their sums (hand-written, independent of /repo) =====
// &Linear: (Some(id), coefficient) per term in storage order, then (None, constant); the items whose coefficient is zero are skipped
pub open spec fn lin_raw(l: v1::Linear) -> Seq<(Option<u64>, F64)> {
    Seq::new((l.terms.len() + 1) as nat, |i: int| if i < l.terms.len() { (Some(l.terms[i].id), l.terms[i].coefficient) } else { (None::<u64>, l.constant) })
}
pub open spec fn nz(s: Seq<(Option<u64>, F64)>) -> Seq<bool> { Seq::new(s.len(), |i: int| s[i].1@ != XR::Fin(0real)) }
pub open spec fn lin_items(l: v1::Linear) -> Seq<(Option<u64>, F64)> { sel(lin_raw(l), nz(lin_raw(l)), lin_raw(l).len() as int) }
// the value of a list of (optional id, coefficient) items
pub open spec fn oval(m: Map<u64, F64>, id: Option<u64>) -> real { match id { Some(k) => sval(m, k), None => 1real } }
pub open spec fn osum(s: Seq<(Option<u64>, F64)>, n: int, m: Map<u64, F64>) -> real decreases n {
    if n <= 0 { 0real } else { osum(s, n - 1, m) + rv(s[n - 1].1) * oval(m, s[n - 1].0) }
}
pub open spec fn ofin(s: Seq<(Option<u64>, F64)>) -> bool { forall|i: int| 0 <= i < s.len() ==> fin((#[trigger] s[i]).1) }
// every selected item is an item of the list (with its flag set), in order
pub proof fn lemma_sel_from<T>(v: Seq<T>, b: Seq<bool>, n: int, j: int) -> (i: int)
    requires 0 <= n <= v.len(), n <= b.len(), 0 <= j < sel(v, b, n).len()
    ensures 0 <= i < n, b[i], sel(v, b, n)[j] == v[i]
    decreases n
{
    if b[n - 1] { if j == sel(v, b, n - 1).len() { n - 1 } else { lemma_sel_from(v, b, n - 1, j) } } else { lemma_sel_from(v, b, n - 1, j) }
}
pub proof fn lemma_osum_ext(a: Seq<(Option<u64>, F64)>, b: Seq<(Option<u64>, F64)>, n: int, m: Map<u64, F64>)
    requires 0 <= n <= a.len(), n <= b.len(), forall|i: int| 0 <= i < n ==> a[i] == b[i]
    ensures osum(a, n, m) == osum(b, n, m)
    decreases n
{ if n > 0 { lemma_osum_ext(a, b, n - 1, m); } }
// skipping the zero-coefficient items does not change the sum
pub proof fn lemma_osum_sel(v: Seq<(Option<u64>, F64)>, n: int, m: Map<u64, F64>)
    requires 0 <= n <= v.len()
    ensures osum(sel(v, nz(v), n), sel(v, nz(v), n).len() as int, m) == osum(v, n, m)
    decreases n
{
    if n > 0 {
        lemma_osum_sel(v, n - 1, m);
        let s0 = sel(v, nz(v), n - 1);
        if nz(v)[n - 1] {
            let s1 = s0.push(v[n - 1]);
            lemma_osum_ext(s1, s0, s0.len() as int, m);
        } else {
            assert(rv(v[n - 1].1) == 0real);
            assert(0real * oval(m, v[n - 1].0) == 0real) by(nonlinear_arith);
        }
    }
}
pub proof fn lemma_lin_raw_sum(l: v1::Linear, n: int, m: Map<u64, F64>)
    requires 0 <= n <= l.terms.len()
    ensures osum(lin_raw(l), n, m) == lin_sum(l.terms@, n, m)
    decreases n
{ if n > 0 { lemma_lin_raw_sum(l, n - 1, m); } }
// the items of &Linear sum to the value of the message
pub proof fn lemma_lin_items_sum(l: v1::Linear, m: Map<u64, F64>)
    ensures osum(lin_items(l), lin_items(l).len() as int, m) == linear_val(l, m)
{
    let v = lin_raw(l); let n = l.terms.len() as int;
    lemma_osum_sel(v, n + 1, m);
    lemma_lin_raw_sum(l, n, m);
    assert(rv(l.constant) * 1real == rv(l.constant)) by(nonlinear_arith);
}
// every item is non-zero, comes from the message, and is finite when the message is
pub proof fn lemma_lin_items_from(l: v1::Linear, j: int)
    requires 0 <= j < lin_items(l).len()
    ensures lin_items(l)[j].1@ != XR::Fin(0real),
        linear_fin(l) ==> fin(lin_items(l)[j].1),
        lin_items(l)[j].0 is Some ==> linear_ids(l).contains(lin_items(l)[j].0->Some_0),
{
    let v = lin_raw(l);
    let i = lemma_sel_from(v, nz(v), v.len() as int, j);
    if i < l.terms.len() { lemma_lin_ids_has(l.terms@, l.terms.len() as int, i); }
}
// ---- keyed (sorted id list, coefficient) items ----
pub open spec fn okey(id: Option<u64>) -> Seq<u64> { match id { Some(k) => seq![k], None => Seq::<u64>::empty() } }
pub open spec fn lkeyed(l: v1::Linear) -> Seq<(Seq<u64>, F64)> { Seq::new(lin_items(l).len(), |i: int| (okey(lin_items(l)[i].0), lin_items(l)[i].1)) }
pub open spec fn pair_key(a: u64, b: u64) -> Seq<u64> { if a <= b { seq![a, b] } else { seq![b, a] } }
// &Quadratic: one item per COO entry under the sorted pair (column, row), then the items of the linear part (when present)
pub open spec fn qpart(q: v1::Quadratic) -> Seq<(Seq<u64>, F64)> { Seq::new(q.columns.len() as nat, |i: int| (pair_key(q.columns[i], q.rows[i]), q.values[i])) }
pub open spec fn quad_titems(q: v1::Quadratic) -> Seq<(Seq<u64>, F64)> { qpart(q) + (match q.linear { Some(l) => lkeyed(l), None => Seq::empty() }) }
// &Function: by kind
pub open spec fn fn_titems_ok(r: Seq<(SortedIds, F64)>, f: v1::Function) -> bool {
    match f.function {
        Some(v1::function::Function::Constant(c)) => sitems(r) == seq![(Seq::<u64>::empty(), c)],
        Some(v1::function::Function::Linear(l)) => sitems(r) == lkeyed(l),
        Some(v1::function::Function::Quadratic(q)) => sitems(r) == quad_titems(q),
        Some(v1::function::Function::Polynomial(p)) => tlist_ok(r, p.terms@),
        None => r.len() == 0,
    }
}
pub open spec fn keys_sorted(r: Seq<(SortedIds, F64)>) -> bool { forall|j: int| 0 <= j < r.len() ==> sorted_seq((#[trigger] r[j]).0.0@) }
pub proof fn lemma_skey1(k: u64) ensures skey(seq![k]) == seq![k] { lemma_perm_refl(seq![k]); lemma_skey(seq![k], seq![k]); }
pub proof fn lemma_skey0() ensures skey(Seq::<u64>::empty()) == Seq::<u64>::empty() { lemma_perm_refl(Seq::<u64>::empty()); lemma_skey(Seq::<u64>::empty(), Seq::<u64>::empty()); }
pub proof fn lemma_okey(id: Option<u64>) ensures skey(okey(id)) == okey(id), sorted_seq(okey(id)) { match id { Some(k) => lemma_skey1(k), None => lemma_skey0() } }
pub proof fn lemma_pair_key(a: u64, b: u64)
    ensures skey(seq![a, b]) == pair_key(a, b), sorted_seq(pair_key(a, b)), perm(pair_key(a, b), seq![a, b])
{
    let s = seq![a, b]; let w = pair_key(a, b);
    assert forall|k: u64| cnt(w, 2, k) == cnt(s, 2, k) by {
        assert(cnt(w, 2, k) == cnt(w, 1, k) + (if w[1] == k { 1nat } else { 0nat })); assert(cnt(w, 1, k) == cnt(w, 0, k) + (if w[0] == k { 1nat } else { 0nat }));
        assert(cnt(s, 2, k) == cnt(s, 1, k) + (if s[1] == k { 1nat } else { 0nat })); assert(cnt(s, 1, k) == cnt(s, 0, k) + (if s[0] == k { 1nat } else { 0nat }));
    }
    lemma_skey(w, s);
}
// ---- what the lists are worth: their terms sum to the value of the message, are finite when the message is, and use only its ids ----
pub proof fn lemma_kseq_sum_ext<K>(a: Seq<(K, F64)>, b: Seq<(K, F64)>, n: int, w: spec_fn(K) -> real)
    requires 0 <= n <= a.len(), n <= b.len(), forall|i: int| 0 <= i < n ==> a[i] == b[i]
    ensures kseq_sum(a, n, w) == kseq_sum(b, n, w)
    decreases n
{ if n > 0 { lemma_kseq_sum_ext(a, b, n - 1, w); } }
pub proof fn lemma_kseq_sum_concat<K>(a: Seq<(K, F64)>, b: Seq<(K, F64)>, n: int, w: spec_fn(K) -> real)
    requires 0 <= n <= b.len()
    ensures kseq_sum(a + b, a.len() + n, w) == kseq_sum(a, a.len() as int, w) + kseq_sum(b, n, w)
    decreases n
{
    if n > 0 { lemma_kseq_sum_concat(a, b, n - 1, w); assert((a + b)[a.len() + n - 1] == b[n - 1]); }
    else { lemma_kseq_sum_ext(a + b, a, a.len() as int, w); }
}
pub proof fn lemma_pw_okey(id: Option<u64>, m: Map<u64, F64>) ensures pw(m)(okey(id)) == oval(m, id)
{
    match id {
        Some(k) => { let s = seq![k]; assert(mono_val(1real, s, 1, m) == mono_val(1real, s, 0, m) * sval(m, s[0])); assert(1real * sval(m, k) == sval(m, k)) by(nonlinear_arith); }
        None => {}
    }
}
pub proof fn lemma_lkeyed_osum(l: v1::Linear, n: int, m: Map<u64, F64>)
    requires 0 <= n <= lin_items(l).len()
    ensures kseq_sum(lkeyed(l), n, pw(m)) == osum(lin_items(l), n, m)
    decreases n
{ if n > 0 { lemma_lkeyed_osum(l, n - 1, m); lemma_pw_okey(lin_items(l)[n - 1].0, m); } }
pub proof fn lemma_lkeyed_sum(l: v1::Linear, m: Map<u64, F64>)
    ensures kseq_sum(lkeyed(l), lkeyed(l).len() as int, pw(m)) == linear_val(l, m)
{ lemma_lkeyed_osum(l, lin_items(l).len() as int, m); lemma_lin_items_sum(l, m); }
pub proof fn lemma_pw_pair(a: u64, b: u64, m: Map<u64, F64>) ensures pw(m)(pair_key(a, b)) == sval(m, a) * sval(m, b)
{
    let s = pair_key(a, b);
    assert(mono_val(1real, s, 2, m) == mono_val(1real, s, 1, m) * sval(m, s[1]));
    assert(mono_val(1real, s, 1, m) == mono_val(1real, s, 0, m) * sval(m, s[0]));
    let x = sval(m, a); let y = sval(m, b);
    assert((1real * x) * y == x * y && (1real * y) * x == x * y) by(nonlinear_arith);
}
pub proof fn lemma_qpart_sum(q: v1::Quadratic, n: int, m: Map<u64, F64>)
    requires qcoo(q), 0 <= n <= q.columns.len()
    ensures kseq_sum(qpart(q), n, pw(m)) == quad_sum(q.rows@, q.columns@, q.values@, n, m)
    decreases n
{
    if n > 0 {
        lemma_qpart_sum(q, n - 1, m); lemma_pw_pair(q.columns[n - 1], q.rows[n - 1], m);
        let v = rv(q.values[n - 1]); let x = sval(m, q.rows[n - 1]); let y = sval(m, q.columns[n - 1]);
        assert(v * (y * x) == v * x * y) by(nonlinear_arith);
    }
}
pub proof fn lemma_quad_titems_sum(q: v1::Quadratic, m: Map<u64, F64>)
    requires qcoo(q)
    ensures kseq_sum(quad_titems(q), quad_titems(q).len() as int, pw(m)) == quadratic_val(q, m)
{
    let a = qpart(q); let b = match q.linear { Some(l) => lkeyed(l), None => Seq::<(Seq<u64>, F64)>::empty() };
    lemma_kseq_sum_concat(a, b, b.len() as int, pw(m));
    lemma_qpart_sum(q, q.columns.len() as int, m);
    match q.linear { Some(l) => lemma_lkeyed_sum(l, m), None => {} }
}
pub proof fn lemma_fn_titems_sum(r: Seq<(SortedIds, F64)>, f: v1::Function, m: Map<u64, F64>)
    requires fn_titems_ok(r, f), fn_coo_ok(f)
    ensures kseq_sum(sitems(r), r.len() as int, pw(m)) == fn_val(f, m)
{
    let s = sitems(r); let n = r.len() as int;
    assert(s.len() == n);
    match f.function {
        Some(v1::function::Function::Constant(c)) => {
            assert(n == 1);
            assert(kseq_sum(s, 1, pw(m)) == kseq_sum(s, 0, pw(m)) + rv(s[0].1) * pw(m)(s[0].0));
            assert(s[0] == (Seq::<u64>::empty(), c));
            assert(pw(m)(Seq::<u64>::empty()) == 1real);
            assert(rv(c) * 1real == rv(c)) by(nonlinear_arith);
        }
        Some(v1::function::Function::Linear(l)) => { lemma_lkeyed_sum(l, m); assert(s == lkeyed(l)); }
        Some(v1::function::Function::Quadratic(q)) => { lemma_quad_titems_sum(q, m); assert(s == quad_titems(q)); }
        Some(v1::function::Function::Polynomial(p)) => { lemma_tlist_sum(r, p.terms@, p.terms.len() as int, m); }
        None => {}
    }
}
pub proof fn lemma_lkeyed_from(l: v1::Linear, j: int)
    requires 0 <= j < lkeyed(l).len()
    ensures linear_fin(l) ==> fin(lkeyed(l)[j].1),
        forall|t: int| 0 <= t < lkeyed(l)[j].0.len() ==> linear_ids(l).contains(#[trigger] lkeyed(l)[j].0[t]),
{ lemma_lin_items_from(l, j); }
pub proof fn lemma_fn_titems_from(r: Seq<(SortedIds, F64)>, f: v1::Function, j: int)
    requires fn_titems_ok(r, f), fn_coo_ok(f), 0 <= j < r.len()
    ensures fn_fin(f) ==> fin(r[j].1),
        forall|t: int| 0 <= t < r[j].0.0.len() ==> fn_ids(f).contains(#[trigger] r[j].0.0@[t]),
{
    let s = sitems(r);
    assert(s.len() == r.len());
    assert(s[j] == (r[j].0.0@, r[j].1));
    match f.function {
        Some(v1::function::Function::Constant(c)) => { assert(j == 0); assert(s[0] == (Seq::<u64>::empty(), c)); }
        Some(v1::function::Function::Linear(l)) => {
            assert(s == lkeyed(l)); lemma_lkeyed_from(l, j);
            assert forall|t: int| 0 <= t < r[j].0.0.len() implies fn_ids(f).contains(#[trigger] r[j].0.0@[t]) by { assert(r[j].0.0@[t] == lkeyed(l)[j].0[t]); }
        }
        Some(v1::function::Function::Quadratic(q)) => {
            let n = q.columns.len() as int;
            assert(s == quad_titems(q));
            if j < n {
                assert(s[j] == qpart(q)[j]);
                assert forall|t: int| 0 <= t < r[j].0.0.len() implies fn_ids(f).contains(#[trigger] r[j].0.0@[t]) by {
                    let k = r[j].0.0@[t]; assert(k == q.columns[j] || k == q.rows[j]);
                    assert(pos_has(q.rows@, q.columns@, j, k));
                    lemma_quad_ids_mem(q.rows@, q.columns@, quad_n(q), k);
                }
            } else {
                let l = q.linear->Some_0;
                assert(s[j] == lkeyed(l)[j - n]);
                lemma_lkeyed_from(l, j - n);
                assert forall|t: int| 0 <= t < r[j].0.0.len() implies fn_ids(f).contains(#[trigger] r[j].0.0@[t]) by { assert(r[j].0.0@[t] == lkeyed(l)[j - n].0[t]); }
            }
        }
        Some(v1::function::Function::Polynomial(p)) => {
            assert forall|t: int| 0 <= t < r[j].0.0.len() implies fn_ids(f).contains(#[trigger] r[j].0.0@[t]) by {
                let k = r[j].0.0@[t]; assert(r[j].0.0@.contains(k));
                lemma_perm_mem(r[j].0.0@, p.terms[j].ids@, k);
                lemma_mono_ids_mem(p.terms[j].ids@, p.terms[j].ids.len() as int, k);
                lemma_poly_ids_mem(p.terms@, p.terms.len() as int, k);
            }
        }
        None => {}
    }
}
// the length of a key: at most 2 for constant / linear / quadratic messages, the length of the monomial's id list for a polynomial
pub proof fn lemma_fn_titems_len(r: Seq<(SortedIds, F64)>, f: v1::Function, j: int)
    requires fn_titems_ok(r, f), 0 <= j < r.len()
    ensures match f.function { Some(v1::function::Function::Polynomial(p)) => j < p.terms.len() && r[j].0.0@.len() == p.terms[j].ids@.len(), _ => r[j].0.0@.len() <= 2 }
{
    let s = sitems(r);
    assert(s.len() == r.len());
    assert(s[j] == (r[j].0.0@, r[j].1));
    match f.function {
        Some(v1::function::Function::Constant(c)) => { assert(s[0] == (Seq::<u64>::empty(), c)); }
        Some(v1::function::Function::Linear(l)) => { assert(s[j] == lkeyed(l)[j]); }
        Some(v1::function::Function::Quadratic(q)) => {
            let n = q.columns.len() as int;
            assert(s == quad_titems(q));
            if j < n { assert(s[j] == qpart(q)[j]); } else { let l = q.linear->Some_0; assert(s[j] == lkeyed(l)[j - n]); }
        }
        Some(v1::function::Function::Polynomial(p)) => {}
        None => {}
    }
}
