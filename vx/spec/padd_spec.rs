// ===== spec/padd_spec.rs : Polynomial + Polynomial as a keyed merge over id lists (hand-written, independent of /repo) =====
// the monomials as (id list, coefficient) items, and the weight of an id list at an assignment: the product of the values
pub open spec fn pitems(t: Seq<v1::Monomial>) -> Seq<(Seq<u64>, F64)> { Seq::new(t.len(), |i: int| (t[i].ids@, t[i].coefficient)) }
pub open spec fn pw(m: Map<u64, F64>) -> spec_fn(Seq<u64>) -> real { |ids: Seq<u64>| mono_val(1real, ids, ids.len() as int, m) }
pub proof fn lemma_mono_unit(c: real, ids: Seq<u64>, j: int, m: Map<u64, F64>)
    requires 0 <= j <= ids.len()
    ensures mono_val(c, ids, j, m) == c * mono_val(1real, ids, j, m)
    decreases j
{
    if j > 0 {
        lemma_mono_unit(c, ids, j - 1, m);
        let a = mono_val(1real, ids, j - 1, m); let x = sval(m, ids[j - 1]);
        assert((c * a) * x == c * (a * x)) by(nonlinear_arith);
    } else { assert(c * 1real == c) by(nonlinear_arith); }
}
pub proof fn lemma_pitems_sum(t: Seq<v1::Monomial>, n: int, m: Map<u64, F64>)
    requires 0 <= n <= t.len()
    ensures kseq_sum(pitems(t), n, pw(m)) == poly_sum(t, n, m)
    decreases n
{
    if n > 0 {
        lemma_pitems_sum(t, n - 1, m);
        assert(pitems(t)[n - 1] == (t[n - 1].ids@, t[n - 1].coefficient));
        lemma_mono_unit(rv(t[n - 1].coefficient), t[n - 1].ids@, t[n - 1].ids.len() as int, m);
    }
}
pub proof fn lemma_poly_sum_concat(a: Seq<v1::Monomial>, b: Seq<v1::Monomial>, n: int, m: Map<u64, F64>)
    requires 0 <= n <= b.len()
    ensures poly_sum(a + b, a.len() + n, m) == poly_sum(a, a.len() as int, m) + poly_sum(b, n, m)
    decreases n
{
    if n > 0 { lemma_poly_sum_concat(a, b, n - 1, m); assert((a + b)[a.len() + n - 1] == b[n - 1]); }
    else { lemma_poly_sum_prefix(a, a + b, a.len() as int, m); }
}
pub proof fn lemma_poly_sum_prefix(a: Seq<v1::Monomial>, c: Seq<v1::Monomial>, n: int, m: Map<u64, F64>)
    requires 0 <= n <= a.len(), n <= c.len(), forall|i: int| 0 <= i < n ==> a[i] == c[i]
    ensures poly_sum(a, n, m) == poly_sum(c, n, m)
    decreases n
{ if n > 0 { lemma_poly_sum_prefix(a, c, n - 1, m); } }
// ids of a prefix of monomials
pub proof fn lemma_poly_ids_mem(t: Seq<v1::Monomial>, n: int, k: u64)
    requires 0 <= n <= t.len()
    ensures poly_ids(t, n).contains(k) <==> exists|i: int| 0 <= i < n && #[trigger] mono_ids(t[i].ids@, t[i].ids.len() as int).contains(k)
    decreases n
{
    if n > 0 {
        lemma_poly_ids_mem(t, n - 1, k);
        if poly_ids(t, n).contains(k) && !poly_ids(t, n - 1).contains(k) { assert(mono_ids(t[n - 1].ids@, t[n - 1].ids.len() as int).contains(k)); }
        if exists|i: int| 0 <= i < n && #[trigger] mono_ids(t[i].ids@, t[i].ids.len() as int).contains(k) {
            let i = choose|i: int| 0 <= i < n && #[trigger] mono_ids(t[i].ids@, t[i].ids.len() as int).contains(k);
            if i < n - 1 { assert(mono_ids(t[i].ids@, t[i].ids.len() as int).contains(k)); }
        }
    }
}
// mono_ids of a list
pub proof fn lemma_mono_ids_mem(ids: Seq<u64>, n: int, k: u64)
    requires 0 <= n <= ids.len()
    ensures mono_ids(ids, n).contains(k) <==> exists|j: int| 0 <= j < n && ids[j] == k
    decreases n
{ if n > 0 { lemma_mono_ids_mem(ids, n - 1, k); } }
