// ===== spec/up_spec.rs : upcasts into Polynomial (From<f64> / From<Linear> / From<Quadratic>) and the sums built on them (hand-written, independent of /repo) =====
// merging a listing with one item per key into a map that already holds entries: every key of the listing is bumped once and dropped when the sum is within epsilon;
// the result does not depend on the order of the listing
pub open spec fn kbase<K>(base: Map<K, real>, k: K) -> real { if base.contains_key(k) { base[k] } else { 0real } }
pub open spec fn kapply<K>(base: Map<K, real>, g: Map<K, real>) -> Map<K, real> {
    Map::new(base.dom().union(g.dom()).filter(|k: K| !g.contains_key(k) || rabs(kbase(base, k) + g[k]) > eps_real()),
             |k: K| if g.contains_key(k) { kbase(base, k) + g[k] } else { base[k] })
}
pub proof fn lemma_kacc_listing_from<K>(l: Seq<(K, F64)>, n: int, g: Map<K, real>, base: Map<K, real>)
    requires klists(l, n, g)
    ensures kacc(l, n, true, base) =~= kapply(base, g)
    decreases n
{
    if n == 0 { assert(g.dom().len() == 0); assert(g.dom() =~= Set::<K>::empty()); } else {
        let k = l[n - 1].0; let g2 = g.remove(k);
        assert(g2.dom() =~= g.dom().remove(k));
        assert forall|i: int| 0 <= i < n - 1 implies g2.contains_key((#[trigger] l[i]).0) && l[i].1@ == XR::Fin(g2[l[i].0]) by { assert(l[i].0 != l[n - 1].0); }
        assert(klists(l, n - 1, g2));
        lemma_kacc_listing_from(l, n - 1, g2, base);
        assert(rv(l[n - 1].1) == g[k]);
        assert(!g2.contains_key(k));
    }
}
pub proof fn lemma_kacc_prefix<K>(a: Seq<(K, F64)>, b: Seq<(K, F64)>, n: int, d: bool, init: Map<K, real>)
    requires 0 <= n <= a.len(), n <= b.len(), forall|i: int| 0 <= i < n ==> a[i] == b[i]
    ensures kacc(a, n, d, init) == kacc(b, n, d, init)
    decreases n
{ if n > 0 { lemma_kacc_prefix(a, b, n - 1, d, init); } }
pub proof fn lemma_kacc_concat<K>(a: Seq<(K, F64)>, b: Seq<(K, F64)>, n: int, d: bool, init: Map<K, real>)
    requires 0 <= n <= b.len()
    ensures kacc(a + b, a.len() + n, d, init) == kacc(b, n, d, kacc(a, a.len() as int, d, init))
    decreases n
{
    if n > 0 { lemma_kacc_concat(a, b, n - 1, d, init); assert((a + b)[a.len() + n - 1] == b[n - 1]); }
    else { lemma_kacc_prefix(a + b, a, a.len() as int, d, init); }
}
// the maps the upcasts build
pub open spec fn cmap(c: F64) -> Map<Seq<u64>, real> { if c@ == XR::Fin(0real) { Map::empty() } else { Map::<Seq<u64>, real>::empty().insert(Seq::<u64>::empty(), rv(c)) } }
pub open spec fn lmap(l: v1::Linear) -> Map<Seq<u64>, real> { kacc(lkeyed(l), lkeyed(l).len() as int, true, Map::empty()) }
pub open spec fn qmap(q: v1::Quadratic) -> Map<Seq<u64>, real> { kacc(quad_titems(q), quad_titems(q).len() as int, true, Map::empty()) }
// p lists the map g: one monomial per key, its coefficient the value under the key
pub open spec fn plists(p: v1::Polynomial, g: Map<Seq<u64>, real>) -> bool { klists(pitems(p.terms@), p.terms.len() as int, g) }
// self + p, where p lists g (the code accumulates the terms of self, then those of p, into an empty map)
pub open spec fn padd_up(x: v1::Polynomial, g: Map<Seq<u64>, real>) -> Map<Seq<u64>, real> { kapply(kacc(pitems(x.terms@), x.terms.len() as int, true, Map::empty()), g) }
pub open spec fn rem_add_up(x: v1::Polynomial, g: Map<Seq<u64>, real>, vy: real, m: Map<u64, F64>) -> real { polynomial_val(x, m) + vy - ksum(padd_up(x, g), pw(m)) }
pub proof fn lemma_padd_up(x: v1::Polynomial, p: v1::Polynomial, g: Map<Seq<u64>, real>, m: Map<u64, F64>)
    requires plists(p, g)
    ensures polynomial_val(x, m) + polynomial_val(p, m) - rem_add_polynomial_polynomial(x, p, m) == ksum(padd_up(x, g), pw(m))
{
    let a = pitems(x.terms@); let b = pitems(p.terms@);
    assert(pitems(x.terms@ + p.terms@) =~= a + b);
    lemma_kacc_concat(a, b, b.len() as int, true, Map::empty());
    lemma_kacc_listing_from(b, b.len() as int, g, kacc(a, a.len() as int, true, Map::empty()));
}
pub proof fn lemma_plists_fin(p: v1::Polynomial, g: Map<Seq<u64>, real>)
    requires plists(p, g)
    ensures poly_fin(p.terms@)
{ assert forall|i: int| 0 <= i < p.terms.len() implies fin((#[trigger] p.terms@[i]).coefficient) by { assert(pitems(p.terms@)[i].1 == p.terms@[i].coefficient); } }
// ---- products over item lists (Quadratic * Quadratic): the exact product accumulated under canonical keys in the order of the two loops; nothing is dropped inside the loops ----
pub open spec fn grow(g: Map<Seq<u64>, real>, a: (Seq<u64>, F64), b: Seq<(Seq<u64>, F64)>, j: int) -> Map<Seq<u64>, real> decreases j {
    if j <= 0 { g } else { kbump(grow(g, a, b, j - 1), skey(b[j - 1].0 + a.0), rv(a.1) * rv(b[j - 1].1)) }
}
pub open spec fn gmat(a: Seq<(Seq<u64>, F64)>, b: Seq<(Seq<u64>, F64)>, i: int) -> Map<Seq<u64>, real> decreases i {
    if i <= 0 { Map::empty() } else { grow(gmat(a, b, i - 1), a[i - 1], b, b.len() as int) }
}
pub open spec fn rem_gmul(a: Seq<(Seq<u64>, F64)>, b: Seq<(Seq<u64>, F64)>, m: Map<u64, F64>) -> real {
    let g = gmat(a, b, a.len() as int); ksum(g, pw(m)) - ksum(kdrop(g), pw(m))
}
// the weight of a merged key is the product of the weights
pub proof fn lemma_pw_merge(key: Seq<u64>, r: Seq<u64>, l: Seq<u64>, m: Map<u64, F64>)
    requires perm(key, r + l)
    ensures pw(m)(key) == pw(m)(r) * pw(m)(l)
{
    lemma_mono_perm(1real, key, r + l, m);
    lemma_mono_concat(r, l, l.len() as int, m);
}
