// ===== spec/up_spec.rs : upcasts into Polynomial (From<f64> / From<Linear> / From<Quadratic>) and the sums built on them (hand-written, independent of /repo) =====
// merging a listing with one item per key into a map that already holds entries: every key of the listing is bumped once and dropped when the sum is within epsilon;
// the result does not depend on the order of the listing
pub open spec fn kbase<K>(base: Map<K, real>, k: K) -> real { if base.contains_key(k) { base[k] } else { 0real } }
pub open spec fn kapply<K>(base: Map<K, real>, g: Map<K, real>) -> Map<K, real> {
    Map::new(base.dom().union(g.dom()).filter(|k: K| !g.contains_key(k) || rabs(kbase(base, k) + g[k]) > eps_real()),
             |k: K| if g.contains_key(k) { kbase(base, k) + g[k] } else { base[k] })
}
pub proof fn lemma_kacc_listing_from<K>(l: Seq<(K, F64)>, n: int, g: Map<K, real>, base: Map<K, real>)
    requires klists(l, n, g)
    ensures kacc(l, n, true, base) =~= kapply(base, g)
    decreases n
{
    if n == 0 { assert(g.dom().len() == 0); assert(g.dom() =~= Set::<K>::empty()); } else {
        let k = l[n - 1].0; let g2 = g.remove(k);
        assert(g2.dom() =~= g.dom().remove(k));
        assert forall|i: int| 0 <= i < n - 1 implies g2.contains_key((#[trigger] l[i]).0) && l[i].1@ == XR::Fin(g2[l[i].0]) by { assert(l[i].0 != l[n - 1].0); }
        assert(klists(l, n - 1, g2));
        lemma_kacc_listing_from(l, n - 1, g2, base);
        assert(rv(l[n - 1].1) == g[k]);
        assert(!g2.contains_key(k));
    }
}
pub proof fn lemma_kacc_prefix<K>(a: Seq<(K, F64)>, b: Seq<(K, F64)>, n: int, d: bool, init: Map<K, real>)
    requires 0 <= n <= a.len(), n <= b.len(), forall|i: int| 0 <= i < n ==> a[i] == b[i]
    ensures kacc(a, n, d, init) == kacc(b, n, d, init)
    decreases n
{ if n > 0 { lemma_kacc_prefix(a, b, n - 1, d, init); } }
pub proof fn lemma_kacc_concat<K>(a: Seq<(K, F64)>, b: Seq<(K, F64)>, n: int, d: bool, init: Map<K, real>)
    requires 0 <= n <= b.len()
    ensures kacc(a + b, a.len() + n, d, init) == kacc(b, n, d, kacc(a, a.len() as int, d, init))
    decreases n
{
    if n > 0 { lemma_kacc_concat(a, b, n - 1, d, init); assert((a + b)[a.len() + n - 1] == b[n - 1]); }
    else { lemma_kacc_prefix(a + b, a, a.len() as int, d, init); }
}
// the maps the upcasts build
pub open spec fn cmap(c: F64) -> Map<Seq<u64>, real> { if c@ == XR::Fin(0real) { Map::empty() } else { Map::<Seq<u64>, real>::empty().insert(Seq::<u64>::empty(), rv(c)) } }
pub open spec fn lmap(l: v1::Linear) -> Map<Seq<u64>, real> { kacc(lkeyed(l), lkeyed(l).len() as int, true, Map::empty()) }
pub open spec fn qmap(q: v1::Quadratic) -> Map<Seq<u64>, real> { kacc(quad_titems(q), quad_titems(q).len() as int, true, Map::empty()) }
// p lists the map g: one monomial per key, its coefficient the value under the key
pub open spec fn plists(p: v1::Polynomial, g: Map<Seq<u64>, real>) -> bool { klists(pitems(p.terms@), p.terms.len() as int, g) }
// self + p, where p lists g (the code accumulates the terms of self, then those of p, into an empty map)
pub open spec fn padd_up(x: v1::Polynomial, g: Map<Seq<u64>, real>) -> Map<Seq<u64>, real> { kapply(kacc(pitems(x.terms@), x.terms.len() as int, true, Map::empty()), g) }
pub open spec fn rem_add_up(x: v1::Polynomial, g: Map<Seq<u64>, real>, vy: real, m: Map<u64, F64>) -> real { polynomial_val(x, m) + vy - ksum(padd_up(x, g), pw(m)) }
pub proof fn lemma_padd_up(x: v1::Polynomial, p: v1::Polynomial, g: Map<Seq<u64>, real>, m: Map<u64, F64>)
    requires plists(p, g)
    ensures polynomial_val(x, m) + polynomial_val(p, m) - rem_add_polynomial_polynomial(x, p, m) == ksum(padd_up(x, g), pw(m))
{
    let a = pitems(x.terms@); let b = pitems(p.terms@);
    assert(pitems(x.terms@ + p.terms@) =~= a + b);
    lemma_kacc_concat(a, b, b.len() as int, true, Map::empty());
    lemma_kacc_listing_from(b, b.len() as int, g, kacc(a, a.len() as int, true, Map::empty()));
}
pub proof fn lemma_plists_fin(p: v1::Polynomial, g: Map<Seq<u64>, real>)
    requires plists(p, g)
    ensures poly_fin(p.terms@)
{ assert forall|i: int| 0 <= i < p.terms.len() implies fin((#[trigger] p.terms@[i]).coefficient) by { assert(pitems(p.terms@)[i].1 == p.terms@[i].coefficient); } }
// ---- products over item lists (Quadratic * Quadratic): the exact product accumulated under canonical keys in the order of the two loops; nothing is dropped inside the loops ----
pub open spec fn grow(g: Map<Seq<u64>, real>, a: (Seq<u64>, F64), b: Seq<(Seq<u64>, F64)>, j: int) -> Map<Seq<u64>, real> decreases j {
    if j <= 0 { g } else { kbump(grow(g, a, b, j - 1), skey(b[j - 1].0 + a.0), rv(a.1) * rv(b[j - 1].1)) }
}
pub open spec fn gmat(a: Seq<(Seq<u64>, F64)>, b: Seq<(Seq<u64>, F64)>, i: int) -> Map<Seq<u64>, real> decreases i {
    if i <= 0 { Map::empty() } else { grow(gmat(a, b, i - 1), a[i - 1], b, b.len() as int) }
}
pub open spec fn rem_gmul(a: Seq<(Seq<u64>, F64)>, b: Seq<(Seq<u64>, F64)>, m: Map<u64, F64>) -> real {
    let g = gmat(a, b, a.len() as int); ksum(g, pw(m)) - ksum(kdrop(g), pw(m))
}
// the weight of a merged key is the product of the weights
pub proof fn lemma_pw_merge(key: Seq<u64>, r: Seq<u64>, l: Seq<u64>, m: Map<u64, F64>)
    requires perm(key, r + l)
    ensures pw(m)(key) == pw(m)(r) * pw(m)(l)
{
    lemma_mono_perm(1real, key, r + l, m);
    lemma_mono_concat(r, l, l.len() as int, m);
}
// ---- the product map does not depend on the order in which the second operand lists its (distinct) keys ----
// weight selecting the items of the second operand that land on key k when merged with the item a
pub open spec fn gw(a: (Seq<u64>, F64), k: Seq<u64>) -> spec_fn(Seq<u64>) -> real { |kb: Seq<u64>| if skey(kb + a.0) == k { rv(a.1) } else { 0real } }
pub open spec fn ghit(a: (Seq<u64>, F64), b: Seq<(Seq<u64>, F64)>, j: int, k: Seq<u64>) -> bool { exists|t: int| 0 <= t < j && skey(#[trigger] b[t].0 + a.0) == k }
pub proof fn lemma_grow_val(g: Map<Seq<u64>, real>, a: (Seq<u64>, F64), b: Seq<(Seq<u64>, F64)>, j: int, k: Seq<u64>)
    requires 0 <= j <= b.len()
    ensures grow(g, a, b, j).contains_key(k) <==> (g.contains_key(k) || ghit(a, b, j, k)),
        kbase(grow(g, a, b, j), k) == kbase(g, k) + kseq_sum(b, j, gw(a, k)),
    decreases j
{
    if j > 0 {
        lemma_grow_val(g, a, b, j - 1, k);
        let prev = grow(g, a, b, j - 1); let kj = skey(b[j - 1].0 + a.0); let c = rv(a.1) * rv(b[j - 1].1);
        assert(grow(g, a, b, j) == kbump(prev, kj, c));
        let xa = rv(a.1); let xb = rv(b[j - 1].1);
        assert(xb * xa == xa * xb) by(nonlinear_arith);
        assert(xb * 0real == 0real) by(nonlinear_arith);
        if ghit(a, b, j, k) && !ghit(a, b, j - 1, k) { let t = choose|t: int| 0 <= t < j && skey(#[trigger] b[t].0 + a.0) == k; assert(t == j - 1); }
        if kj == k { assert(skey(b[j - 1].0 + a.0) == k); }
        if ghit(a, b, j - 1, k) { let t = choose|t: int| 0 <= t < j - 1 && skey(#[trigger] b[t].0 + a.0) == k; assert(skey(b[t].0 + a.0) == k); }
    }
}
pub proof fn lemma_klists_onto<K>(l: Seq<(K, F64)>, n: int, g: Map<K, real>, k: K) -> (i: int)
    requires klists(l, n, g), g.contains_key(k)
    ensures 0 <= i < n, l[i].0 == k
    decreases n
{
    if n == 0 { assert(g.dom().len() == 0); assert(g.dom().contains(k)); assert(g.dom() =~= Set::<K>::empty()); 0 } else if l[n - 1].0 == k { n - 1 } else {
        let kk = l[n - 1].0; let g2 = g.remove(kk);
        assert(g2.dom() =~= g.dom().remove(kk));
        assert forall|i: int| 0 <= i < n - 1 implies g2.contains_key((#[trigger] l[i]).0) && l[i].1@ == XR::Fin(g2[l[i].0]) by { assert(l[i].0 != l[n - 1].0); }
        lemma_klists_onto(l, n - 1, g2, k)
    }
}
pub proof fn lemma_grow_key(g: Map<Seq<u64>, real>, a: (Seq<u64>, F64), b1: Seq<(Seq<u64>, F64)>, b2: Seq<(Seq<u64>, F64)>, gg: Map<Seq<u64>, real>, k: Seq<u64>)
    requires klists(b1, b1.len() as int, gg), klists(b2, b2.len() as int, gg)
    ensures grow(g, a, b1, b1.len() as int).contains_key(k) <==> grow(g, a, b2, b2.len() as int).contains_key(k),
        kbase(grow(g, a, b1, b1.len() as int), k) == kbase(grow(g, a, b2, b2.len() as int), k),
{
    let n1 = b1.len() as int; let n2 = b2.len() as int;
    lemma_grow_val(g, a, b1, n1, k); lemma_grow_val(g, a, b2, n2, k);
    lemma_klist_sum(b1, n1, gg, gw(a, k)); lemma_klist_sum(b2, n2, gg, gw(a, k));
    if ghit(a, b1, n1, k) { let t = choose|t: int| 0 <= t < n1 && skey(#[trigger] b1[t].0 + a.0) == k; let t2 = lemma_klists_onto(b2, n2, gg, b1[t].0); assert(skey(b2[t2].0 + a.0) == k); }
    if ghit(a, b2, n2, k) { let t = choose|t: int| 0 <= t < n2 && skey(#[trigger] b2[t].0 + a.0) == k; let t1 = lemma_klists_onto(b1, n1, gg, b2[t].0); assert(skey(b1[t1].0 + a.0) == k); }
}
pub proof fn lemma_grow_listing(g: Map<Seq<u64>, real>, a: (Seq<u64>, F64), b1: Seq<(Seq<u64>, F64)>, b2: Seq<(Seq<u64>, F64)>, gg: Map<Seq<u64>, real>)
    requires klists(b1, b1.len() as int, gg), klists(b2, b2.len() as int, gg)
    ensures grow(g, a, b1, b1.len() as int) == grow(g, a, b2, b2.len() as int)
{
    let m1 = grow(g, a, b1, b1.len() as int); let m2 = grow(g, a, b2, b2.len() as int);
    assert forall|k: Seq<u64>| #[trigger] m1.contains_key(k) <==> m2.contains_key(k) by { lemma_grow_key(g, a, b1, b2, gg, k); }
    assert forall|k: Seq<u64>| m1.contains_key(k) implies #[trigger] m1[k] == m2[k] by { lemma_grow_key(g, a, b1, b2, gg, k); }
    assert(m1.dom() =~= m2.dom());
    assert(m1 =~= m2);
}
pub proof fn lemma_gmat_listing(a: Seq<(Seq<u64>, F64)>, b1: Seq<(Seq<u64>, F64)>, b2: Seq<(Seq<u64>, F64)>, gg: Map<Seq<u64>, real>, i: int)
    requires klists(b1, b1.len() as int, gg), klists(b2, b2.len() as int, gg), 0 <= i <= a.len()
    ensures gmat(a, b1, i) == gmat(a, b2, i)
    decreases i
{ if i > 0 { lemma_gmat_listing(a, b1, b2, gg, i - 1); lemma_grow_listing(gmat(a, b2, i - 1), a[i - 1], b1, b2, gg); } }
// the product of two monomial lists (spec/perm_spec.rs) is the product of their keyed item lists
pub open spec fn pkeyed(t: Seq<v1::Monomial>) -> Seq<(Seq<u64>, F64)> { Seq::new(t.len(), |i: int| (skey(t[i].ids@), t[i].coefficient)) }
pub proof fn lemma_prow_grow(g: Map<Seq<u64>, real>, a: v1::Monomial, b: Seq<v1::Monomial>, j: int)
    requires 0 <= j <= b.len()
    ensures prow(g, a, b, j) == grow(g, (skey(a.ids@), a.coefficient), pkeyed(b), j)
    decreases j
{ if j > 0 { lemma_prow_grow(g, a, b, j - 1); } }
pub proof fn lemma_pmat_gmat(a: Seq<v1::Monomial>, b: Seq<v1::Monomial>, i: int)
    requires 0 <= i <= a.len()
    ensures pmat(a, b, i) == gmat(pkeyed(a), pkeyed(b), i)
    decreases i
{ if i > 0 { lemma_pmat_gmat(a, b, i - 1); lemma_prow_grow(pmat(a, b, i - 1), a[i - 1], b, b.len() as int); } }
// SOME listing of a map (any two give the same product map: lemma_gmat_listing)
pub open spec fn glist(g: Map<Seq<u64>, real>) -> Seq<(Seq<u64>, F64)> { choose|l: Seq<(Seq<u64>, F64)>| klists(l, l.len() as int, g) }
// self * p, where p lists g with sorted keys: the remainder of that Polynomial * Polynomial, plus what the upcast dropped (vy is the value of the operand before the upcast)
pub open spec fn rem_mul_up(x: v1::Polynomial, g: Map<Seq<u64>, real>, vy: real, m: Map<u64, F64>) -> real {
    polynomial_val(x, m) * (vy - ksum(g, pw(m))) + rem_gmul(pkeyed(x.terms@), glist(g), m)
}
pub open spec fn keys_sorted_p(p: v1::Polynomial) -> bool { forall|j: int| 0 <= j < p.terms.len() ==> sorted_seq((#[trigger] p.terms[j]).ids@) }
pub proof fn lemma_pmul_up(x: v1::Polynomial, p: v1::Polynomial, g: Map<Seq<u64>, real>, vy: real, m: Map<u64, F64>)
    requires plists(p, g), keys_sorted_p(p)
    ensures polynomial_val(x, m) * polynomial_val(p, m) - rem_mul_polynomial_polynomial(x, p, m) == polynomial_val(x, m) * vy - rem_mul_up(x, g, vy, m)
{
    let bp = pkeyed(p.terms@); let n = p.terms.len() as int;
    assert(bp =~= pitems(p.terms@)) by { assert forall|j: int| 0 <= j < n implies #[trigger] bp[j] == pitems(p.terms@)[j] by { lemma_perm_refl(p.terms[j].ids@); lemma_skey(p.terms[j].ids@, p.terms[j].ids@); } }
    assert(klists(bp, bp.len() as int, g));
    let gl = glist(g);
    assert(klists(gl, gl.len() as int, g));
    lemma_pmat_gmat(x.terms@, p.terms@, x.terms.len() as int);
    lemma_gmat_listing(pkeyed(x.terms@), bp, gl, g, x.terms.len() as int);
    lemma_pitems_sum(p.terms@, n, m); lemma_klist_sum(pitems(p.terms@), n, g, pw(m));
    let vx = polynomial_val(x, m); let vp = polynomial_val(p, m);
    assert(vx * (vy - vp) == vx * vy - vx * vp) by(nonlinear_arith);
}
