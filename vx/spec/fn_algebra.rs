// ===== spec/fn_algebra.rs : value-level contracts of the Function operators (C02) =====
// The merges in the map-based leaves drop accumulated coefficients with |c| <= 2^-52 ("documented dropping of coefficients
// below machine epsilon").  The dropped part is carried as an explicit remainder; it is 0 for the map-free arms.
pub open spec fn is_sum(r: v1::Function, a: v1::Function, b: v1::Function) -> bool {
    &&& r.function is Some
    &&& fn_ids(r).subset_of(fn_ids(a).union(fn_ids(b)))
    &&& fn_fin(a) && fn_fin(b) ==> fn_fin(r) && forall|m: Map<u64, F64>| #![trigger fn_val(r, m)] fn_val(r, m) == fn_val(a, m) + fn_val(b, m) - add_rem(a, b, m)
}
pub open spec fn is_prod(r: v1::Function, a: v1::Function, b: v1::Function) -> bool {
    &&& r.function is Some
    &&& fn_ids(r).subset_of(fn_ids(a).union(fn_ids(b)))
    &&& fn_fin(a) && fn_fin(b) ==> fn_fin(r) && forall|m: Map<u64, F64>| #![trigger fn_val(r, m)] fn_val(r, m) == fn_val(a, m) * fn_val(b, m) - mul_rem(a, b, m)
}
pub open spec fn is_neg(r: v1::Function, a: v1::Function) -> bool {
    &&& r.function is Some
    &&& fn_ids(r).subset_of(fn_ids(a))
    &&& fn_fin(a) ==> fn_fin(r) && forall|m: Map<u64, F64>| #![trigger fn_val(r, m)] fn_val(r, m) == -fn_val(a, m) - neg_rem(a, m)
}
// The operators are pure: their result is a function of the operands.  Naming that function lets contracts of callers
// (penalty methods, slack conversions) state WHICH expression was built, and ghost lemmas evaluate it.
pub uninterp spec fn fn_add(a: v1::Function, b: v1::Function) -> v1::Function;
pub uninterp spec fn fn_mul(a: v1::Function, b: v1::Function) -> v1::Function;
pub uninterp spec fn fn_neg(a: v1::Function) -> v1::Function;
pub uninterp spec fn par_mul(p: v1::Parameter, f: v1::Function) -> v1::Function;   // &Parameter * Function
pub uninterp spec fn pmul_rem(p: u64, f: v1::Function, m: Map<u64, F64>) -> real;
pub open spec fn is_par_prod(r: v1::Function, p: v1::Parameter, f: v1::Function) -> bool {
    &&& r.function is Some
    &&& fn_ids(r).subset_of(fn_ids(f).insert(p.id))
    &&& fn_fin(f) ==> fn_fin(r) && forall|m: Map<u64, F64>| #![trigger fn_val(r, m)] fn_val(r, m) == sval(m, p.id) * fn_val(f, m) - pmul_rem(p.id, f, m)
}
