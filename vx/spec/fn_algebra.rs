// ===== spec/fn_algebra.rs : value-level contracts of the Function operators (C02) =====
// The merges in the map-based leaves drop accumulated coefficients with |c| <= 2^-52 ("documented dropping of coefficients
// below machine epsilon").  The dropped part is carried as an explicit remainder; it is 0 for the map-free arms.
pub uninterp spec fn add_rem(a: v1::Function, b: v1::Function, m: Map<u64, F64>) -> real;
pub uninterp spec fn mul_rem(a: v1::Function, b: v1::Function, m: Map<u64, F64>) -> real;
pub uninterp spec fn neg_rem(a: v1::Function, m: Map<u64, F64>) -> real;
pub open spec fn is_sum(r: v1::Function, a: v1::Function, b: v1::Function) -> bool {
    &&& r.function is Some
    &&& fn_ids(r).subset_of(fn_ids(a).union(fn_ids(b)))
    &&& fn_fin(a) && fn_fin(b) ==> fn_fin(r) && forall|m: Map<u64, F64>| #![trigger fn_val(r, m)] fn_val(r, m) == fn_val(a, m) + fn_val(b, m) - add_rem(a, b, m)
}
pub open spec fn is_prod(r: v1::Function, a: v1::Function, b: v1::Function) -> bool {
    &&& r.function is Some
    &&& fn_ids(r).subset_of(fn_ids(a).union(fn_ids(b)))
    &&& fn_fin(a) && fn_fin(b) ==> fn_fin(r) && forall|m: Map<u64, F64>| #![trigger fn_val(r, m)] fn_val(r, m) == fn_val(a, m) * fn_val(b, m) - mul_rem(a, b, m)
}
pub open spec fn is_neg(r: v1::Function, a: v1::Function) -> bool {
    &&& r.function is Some
    &&& fn_ids(r).subset_of(fn_ids(a))
    &&& fn_fin(a) ==> fn_fin(r) && forall|m: Map<u64, F64>| #![trigger fn_val(r, m)] fn_val(r, m) == -fn_val(a, m) - neg_rem(a, m)
}
