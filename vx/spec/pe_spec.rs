// ===== spec/pe_spec.rs : ghost vocabulary for C03 (partial evaluation) =====
pub open spec fn dom_disjoint(ids: Set<u64>, st: Map<u64, F64>) -> bool { forall|k: u64| #[trigger] ids.contains(k) ==> !st.contains_key(k) }
// what the epsilon-dropping merges of Quadratic/Polynomial::partial_evaluate remove (documented "dropping of coefficients below
// machine epsilon"); 0 for constants and linear functions.  Uninterpreted: nothing is assumed about its size here.
// quad_pe_rem: DEFINED in spec/qpe_spec.rs (entries of the exact linear part that Linear::new drops)
// poly_pe_rem: DEFINED in spec/ppe_spec.rs (difference to the specified merge)
pub open spec fn fn_pe_rem(f: v1::Function, st: Map<u64, F64>, m: Map<u64, F64>) -> real {
    match f.function {
        Some(v1::function::Function::Quadratic(q)) => quad_pe_rem(q, st, m),
        Some(v1::function::Function::Polynomial(p)) => poly_pe_rem(p, st, m),
        _ => 0real,
    }
}
pub open spec fn ids_in(ids: Set<u64>, st: Map<u64, F64>) -> Set<u64> { ids.intersect(st.dom()) }
// the postcondition of partial_evaluate as a relation old -> new (st = fixed part, used = returned id set)
pub open spec fn pe_rel(old: v1::Function, new: v1::Function, st: Map<u64, F64>, used: Set<u64>) -> bool {
    &&& dom_disjoint(fn_ids(new), st)                                   // no fixed variable is mentioned any more
    &&& fn_ids(new).subset_of(fn_ids(old))
    &&& used.subset_of(ids_in(fn_ids(old), st))                         // only fixed variables that actually occurred (the statement's wording; Linear and Quadratic
                                                                       // prove equality in their own contracts, Polynomial skips terms with |c| <= EPSILON together with their ids)
    &&& fn_fin(old) && state_fin(st) ==> fn_fin(new)
    &&& fn_fin(old) && state_fin(st) ==> forall|m: Map<u64, F64>| #![trigger fn_val(new, m)] agree(st, m) ==> fn_val(new, m) == fn_val(old, m) - fn_pe_rem(old, st, m)
    &&& (old.function is None <==> new.function is None)
}
// lin_ids under Vec::swap_remove
pub broadcast proof fn lemma_swap_removed_ids(t: Seq<v1::linear::Term>, i: int, n: int)
    requires 0 <= i < t.len(), n == t.len() - 1
    ensures #[trigger] lin_ids(t.update(i, t.last()).drop_last(), n).insert(t[i].id) == lin_ids(t, t.len() as int)
{
    let u = t.update(i, t.last()).drop_last();
    let lhs = lin_ids(u, n).insert(t[i].id);
    let rhs = lin_ids(t, t.len() as int);
    assert forall|k: u64| lhs.contains(k) <==> rhs.contains(k) by {
        lemma_lin_ids_mem(u, n, k);
        lemma_lin_ids_mem(t, t.len() as int, k);
        if lhs.contains(k) {
            if k == t[i].id { assert(t[i].id == k); } else {
                let j = choose|j: int| 0 <= j < n && (#[trigger] u[j]).id == k;
                if j == i { assert(t[n].id == k); } else { assert(t[j].id == k); }
            }
        }
        if rhs.contains(k) {
            let j = choose|j: int| 0 <= j < t.len() && (#[trigger] t[j]).id == k;
            if j == i { } else if j == n { assert(i < n); assert(u[i].id == k); } else { assert(u[j].id == k); }
        }
    }
    assert(lhs =~= rhs);
}
pub open spec fn c_pe_rel(old: v1::Constraint, new: v1::Constraint, st: Map<u64, F64>, used: Set<u64>) -> bool {
    &&& new == (v1::Constraint { function: new.function, ..old })             // id, equality, metadata untouched
    &&& (old.function is None ==> new.function is None && used == Set::<u64>::empty())
    &&& (old.function is Some ==> new.function is Some && pe_rel(old.function->Some_0, new.function->Some_0, st, used))
}
// the same relations with the returned id set eliminated (it is determined by old and st)
pub open spec fn pe(old: v1::Function, new: v1::Function, st: Map<u64, F64>) -> bool { pe_rel(old, new, st, ids_in(fn_ids(old), st)) }
pub open spec fn c_used(old: v1::Constraint, st: Map<u64, F64>) -> Set<u64> { match old.function { Some(f) => ids_in(fn_ids(f), st), None => Set::empty() } }
pub open spec fn c_pe(old: v1::Constraint, new: v1::Constraint, st: Map<u64, F64>) -> bool { c_pe_rel(old, new, st, c_used(old, st)) }
pub open spec fn rc_pe_rel(old: v1::RemovedConstraint, new: v1::RemovedConstraint, st: Map<u64, F64>) -> bool {
    &&& old.constraint is Some && new.constraint is Some
    &&& c_pe(old.constraint->Some_0, new.constraint->Some_0, st)
    &&& new.removed_reason == old.removed_reason && new.removed_reason_parameters == old.removed_reason_parameters
}
