// ===== spec/kmerge_spec.rs : BTreeMap merges over an arbitrary key type, as functions of the inputs, and their order-independent sums (hand-written, independent of /repo) =====
pub open spec fn ksum<K>(a: Map<K, real>, w: spec_fn(K) -> real) -> real decreases a.dom().len() {
    if a.dom().len() == 0 { 0real } else { let k = a.dom().choose(); a[k] * w(k) + ksum(a.remove(k), w) }
}
pub proof fn lemma_ksum_remove<K>(a: Map<K, real>, w: spec_fn(K) -> real, k: K)
    requires a.contains_key(k)
    ensures ksum(a, w) == a[k] * w(k) + ksum(a.remove(k), w)
    decreases a.dom().len()
{
    let c = a.dom().choose();
    assert(a.dom().len() > 0) by { if a.dom().len() == 0 { assert(a.dom() =~= Set::empty()); } }
    assert(a.dom().contains(c));
    if c != k {
        let ac = a.remove(c); let ak = a.remove(k);
        assert(ac.dom() =~= a.dom().remove(c)); assert(ak.dom() =~= a.dom().remove(k));
        lemma_ksum_remove(ac, w, k);
        lemma_ksum_remove(ak, w, c);
        assert(ac.remove(k) =~= ak.remove(c));
        assert(ac[k] == a[k]); assert(ak[c] == a[c]);
    }
}
pub proof fn lemma_ksum_insert<K>(a: Map<K, real>, w: spec_fn(K) -> real, k: K, v: real)
    ensures ksum(a.insert(k, v), w) == (if a.contains_key(k) { ksum(a, w) - a[k] * w(k) } else { ksum(a, w) }) + v * w(k)
{
    let a2 = a.insert(k, v);
    lemma_ksum_remove(a2, w, k);
    assert(a2.remove(k) =~= a.remove(k));
    if a.contains_key(k) { lemma_ksum_remove(a, w, k); } else { assert(a.remove(k) =~= a); }
}
pub proof fn lemma_ksum_empty<K>(w: spec_fn(K) -> real)
    ensures ksum(Map::<K, real>::empty(), w) == 0real
{ assert(Map::<K, real>::empty().dom() =~= Set::<K>::empty()); }
// accumulate (k, c) pairs into a map, optionally dropping an entry when |sum| <= EPSILON - exactly the loop of the code
pub open spec fn kacc<K>(it: Seq<(K, F64)>, n: int, drop: bool, init: Map<K, real>) -> Map<K, real> decreases n {
    if n <= 0 { init } else {
        let prev = kacc(it, n - 1, drop, init); let k = it[n - 1].0;
        let v = (if prev.contains_key(k) { prev[k] } else { 0real }) + rv(it[n - 1].1);
        if drop && rabs(v) <= eps_real() { prev.remove(k) } else { prev.insert(k, v) }
    }
}
// `iter.collect::<BTreeMap<_, _>>()`: insert one pair after the other (a later pair with the same key replaces the earlier one)
pub open spec fn kins<K>(it: Seq<(K, F64)>, n: int) -> Map<K, real> decreases n {
    if n <= 0 { Map::empty() } else { kins(it, n - 1).insert(it[n - 1].0, rv(it[n - 1].1)) }
}
pub open spec fn kmatches<K>(m: Map<K, F64>, a: Map<K, real>) -> bool {
    &&& forall|k: K| m.contains_key(k) <==> a.contains_key(k)
    &&& forall|k: K| m.contains_key(k) ==> (#[trigger] m[k])@ == XR::Fin(a[k])
}
pub open spec fn kfin<K>(it: Seq<(K, F64)>) -> bool { forall|i: int| 0 <= i < it.len() ==> fin((#[trigger] it[i]).1) }
pub open spec fn kseq_sum<K>(it: Seq<(K, F64)>, n: int, w: spec_fn(K) -> real) -> real decreases n {
    if n <= 0 { 0real } else { kseq_sum(it, n - 1, w) + rv(it[n - 1].1) * w(it[n - 1].0) }
}
// accumulation without dropping is exact
pub proof fn lemma_kacc_exact<K>(it: Seq<(K, F64)>, n: int, init: Map<K, real>, w: spec_fn(K) -> real)
    requires 0 <= n <= it.len()
    ensures ksum(kacc(it, n, false, init), w) == ksum(init, w) + kseq_sum(it, n, w)
    decreases n
{
    if n > 0 {
        lemma_kacc_exact(it, n - 1, init, w);
        let prev = kacc(it, n - 1, false, init); let k = it[n - 1].0; let c = rv(it[n - 1].1);
        let v = (if prev.contains_key(k) { prev[k] } else { 0real }) + c;
        lemma_ksum_insert(prev, w, k, v);
        if prev.contains_key(k) { assert((prev[k] + c) * w(k) == prev[k] * w(k) + c * w(k)) by(nonlinear_arith); }
    }
}
// a listing of a map (each key exactly once, with its value) sums to the map sum
pub open spec fn klists<K>(l: Seq<(K, F64)>, n: int, a: Map<K, real>) -> bool {
    &&& 0 <= n <= l.len() && a.dom().len() == n
    &&& forall|i: int| 0 <= i < n ==> a.contains_key((#[trigger] l[i]).0) && l[i].1@ == XR::Fin(a[l[i].0])
    &&& forall|i: int, j: int| 0 <= i < j < n ==> (#[trigger] l[i]).0 != (#[trigger] l[j]).0
}
pub proof fn lemma_klist_sum<K>(l: Seq<(K, F64)>, n: int, a: Map<K, real>, w: spec_fn(K) -> real)
    requires klists(l, n, a)
    ensures kseq_sum(l, n, w) == ksum(a, w)
    decreases n
{
    if n == 0 { assert(a.dom().len() == 0); } else {
        let k = l[n - 1].0; let a2 = a.remove(k);
        assert(a2.dom() =~= a.dom().remove(k));
        assert forall|i: int| 0 <= i < n - 1 implies a2.contains_key((#[trigger] l[i]).0) && l[i].1@ == XR::Fin(a2[l[i].0]) by { assert(l[i].0 != l[n - 1].0); }
        assert(klists(l, n - 1, a2));
        lemma_klist_sum(l, n - 1, a2, w);
        lemma_ksum_remove(a, w, k);
        assert(rv(l[n - 1].1) == a[k]);
    }
}
// weights of quadratic positions: x_a * x_b (symmetric), and the canonical (min, max) position
pub open spec fn qw2(x: Map<u64, F64>) -> spec_fn((u64, u64)) -> real { |k: (u64, u64)| sval(x, k.0) * sval(x, k.1) }
pub open spec fn canon2(k: (u64, u64)) -> (u64, u64) { if k.0 < k.1 { (k.0, k.1) } else { (k.1, k.0) } }
pub open spec fn canon_items(it: Seq<((u64, u64), F64)>) -> Seq<((u64, u64), F64)> { Seq::new(it.len(), |i: int| (canon2(it[i].0), it[i].1)) }
pub proof fn lemma_canon_sum(it: Seq<((u64, u64), F64)>, n: int, x: Map<u64, F64>)
    requires 0 <= n <= it.len()
    ensures kseq_sum(canon_items(it), n, qw2(x)) == kseq_sum(it, n, qw2(x))
    decreases n
{
    if n > 0 {
        lemma_canon_sum(it, n - 1, x);
        let k = it[n - 1].0; let a = sval(x, k.0); let b = sval(x, k.1);
        assert(a * b == b * a) by(nonlinear_arith);
        assert(canon_items(it)[n - 1] == (canon2(k), it[n - 1].1));
    }
}
// the COO triplets of a Quadratic as (position, value) items: position = (column, row) as enumerated by Quadratic::quad_iter
pub open spec fn quad_items(q: v1::Quadratic) -> Seq<((u64, u64), F64)> { Seq::new(quad_n(q) as nat, |i: int| ((q.columns[i], q.rows[i]), q.values[i])) }
pub proof fn lemma_quad_items_sum(q: v1::Quadratic, n: int, x: Map<u64, F64>)
    requires 0 <= n <= quad_n(q)
    ensures kseq_sum(quad_items(q), n, qw2(x)) == quad_sum(q.rows@, q.columns@, q.values@, n, x)
    decreases n
{
    if n > 0 {
        lemma_quad_items_sum(q, n - 1, x);
        let a = sval(x, q.columns[n - 1]); let b = sval(x, q.rows[n - 1]); let v = rv(q.values[n - 1]);
        assert(quad_items(q)[n - 1] == ((q.columns[n - 1], q.rows[n - 1]), q.values[n - 1]));
        assert(v * (a * b) == v * b * a) by(nonlinear_arith);
    }
}
// sequential insertion: the map holds, for every key, the value of the last pair with that key
pub proof fn lemma_kins_has<K>(it: Seq<(K, F64)>, n: int, i: int)
    requires 0 <= i < n <= it.len()
    ensures kins(it, n).contains_key(it[i].0)
    decreases n
{ if i < n - 1 { lemma_kins_has(it, n - 1, i); } }
pub proof fn lemma_kins_from<K>(it: Seq<(K, F64)>, n: int, k: K) -> (i: int)
    requires 0 <= n <= it.len(), kins(it, n).contains_key(k)
    ensures 0 <= i < n, it[i].0 == k
    decreases n
{
    if it[n - 1].0 == k { n - 1 } else { lemma_kins_from(it, n - 1, k) }
}
pub proof fn lemma_kins_last<K>(it: Seq<(K, F64)>, n: int, i: int)
    requires 0 <= i < n <= it.len(), forall|j: int| i < j < n ==> (#[trigger] it[j]).0 != it[i].0
    ensures kins(it, n).contains_key(it[i].0), kins(it, n)[it[i].0] == rv(it[i].1)
    decreases n
{
    if i < n - 1 { assert(it[n - 1].0 != it[i].0); lemma_kins_last(it, n - 1, i); }
}
// vectors filled from a listing ((row, col), value): their quadratic form is the weighted sum of the listing
pub proof fn lemma_listing_quad_sum(l: Seq<((u64, u64), F64)>, rows: Seq<u64>, cols: Seq<u64>, vals: Seq<F64>, n: int, x: Map<u64, F64>)
    requires 0 <= n <= l.len(), n <= rows.len(), n <= cols.len(), n <= vals.len(), forall|j: int| 0 <= j < n ==> (#[trigger] l[j]).0 == (rows[j], cols[j]) && l[j].1 == vals[j]
    ensures quad_sum(rows, cols, vals, n, x) == kseq_sum(l, n, qw2(x))
    decreases n
{
    if n > 0 {
        lemma_listing_quad_sum(l, rows, cols, vals, n - 1, x);
        let a = sval(x, rows[n - 1]); let b = sval(x, cols[n - 1]); let v = rv(vals[n - 1]);
        assert(v * a * b == v * (a * b)) by(nonlinear_arith);
    }
}
pub open spec fn pos_has(r: Seq<u64>, c: Seq<u64>, i: int, k: u64) -> bool { r[i] == k || c[i] == k }
pub proof fn lemma_quad_ids_mem(r: Seq<u64>, c: Seq<u64>, n: int, k: u64)
    requires 0 <= n <= r.len(), n <= c.len()
    ensures quad_ids(r, c, n).contains(k) <==> exists|i: int| 0 <= i < n && #[trigger] pos_has(r, c, i, k)
    decreases n
{
    if n > 0 {
        lemma_quad_ids_mem(r, c, n - 1, k);
        if quad_ids(r, c, n).contains(k) {
            if r[n - 1] == k || c[n - 1] == k { assert(pos_has(r, c, n - 1, k)); }
            else { let i = choose|i: int| 0 <= i < n - 1 && #[trigger] pos_has(r, c, i, k); assert(0 <= i < n && pos_has(r, c, i, k)); }
        }
        if exists|i: int| 0 <= i < n && #[trigger] pos_has(r, c, i, k) {
            let i = choose|i: int| 0 <= i < n && #[trigger] pos_has(r, c, i, k);
            if i < n - 1 { assert(pos_has(r, c, i, k)); }
        }
    }
}
