// ===== spec/substitute_spec.rs : which expression Function::substitute builds, and its value (C04) (hand-written, independent of /repo) =====
// SortedIds: the extracted newtype over Vec<u64> (sorted_ids.rs); its view is the id list
impl View for SortedIds { type V = Seq<u64>; open spec fn view(&self) -> Seq<u64> { self.0@ } }
// the term list enumerated by `for (ids, coefficient) in &function`: NAMED as a function of the message (purity naming, assumed: name_terms); what the list is worth is proved on
// the real term iterators (fn_titems_ok, spec/iter_spec.rs)
pub uninterp spec fn fn_terms(f: v1::Function) -> Seq<(SortedIds, F64)>;
pub open spec fn tsum(t: Seq<(SortedIds, F64)>, n: int, m: Map<u64, F64>) -> real decreases n {
    if n <= 0 { 0real } else { tsum(t, n - 1, m) + mono_val(rv(t[n - 1].1), t[n - 1].0@, t[n - 1].0@.len() as int, m) }
}
pub open spec fn terms_coef_fin(t: Seq<(SortedIds, F64)>) -> bool { forall|i: int| 0 <= i < t.len() ==> fin((#[trigger] t[i]).1) }
pub open spec fn fn_of_f64(c: F64) -> v1::Function { v1::Function { function: Some(v1::function::Function::Constant(c)) } }
pub open spec fn fn_of_linear(l: v1::Linear) -> v1::Function { v1::Function { function: Some(v1::function::Function::Linear(l)) } }

// the factor multiplied in for one occurrence of `id`: the replacement, or a function whose value is x_id
pub open spec fn factor_ok(g: v1::Function, id: u64, rep: Map<u64, v1::Function>) -> bool {
    if rep.contains_key(id) { g == rep[id] }
    else { g.function is Some && fn_fin(g) && forall|m: Map<u64, F64>| #![trigger fn_val(g, m)] fn_val(g, m) == sval(m, id) }
}
pub open spec fn factors_ok(ids: Seq<u64>, fs: Seq<v1::Function>, rep: Map<u64, v1::Function>, j: int) -> bool {
    fs.len() >= j && ids.len() >= j && forall|k: int| 0 <= k < j ==> factor_ok(#[trigger] fs[k], ids[k], rep)
}
// v_0 = c,  v_j = v_{j-1} * factor_j        (operator order exactly as in the code)
pub open spec fn sub_term(c: F64, fs: Seq<v1::Function>, j: int) -> v1::Function decreases j {
    if j <= 0 { fn_of_f64(c) } else { fn_mul(sub_term(c, fs, j - 1), fs[j - 1]) }
}
// out_0 = 0,  out_n = out_{n-1} + v(term n)
pub open spec fn sub_acc(t: Seq<(SortedIds, F64)>, fss: Seq<Seq<v1::Function>>, n: int) -> v1::Function decreases n {
    if n <= 0 { zero_fn() } else { fn_add(sub_acc(t, fss, n - 1), sub_term(t[n - 1].1, fss[n - 1], fss[n - 1].len() as int)) }
}
pub open spec fn all_factors_ok(t: Seq<(SortedIds, F64)>, fss: Seq<Seq<v1::Function>>, rep: Map<u64, v1::Function>, n: int) -> bool {
    fss.len() >= n && t.len() >= n && forall|i: int| 0 <= i < n ==> (#[trigger] fss[i]).len() == t[i].0@.len() && factors_ok(t[i].0@, fss[i], rep, fss[i].len() as int)
}
// the algebra contracts of every operator call made (what C02 decides / assumes)
pub open spec fn term_steps_ok(c: F64, fs: Seq<v1::Function>, j: int) -> bool decreases j {
    if j <= 0 { true } else { term_steps_ok(c, fs, j - 1) && is_prod(sub_term(c, fs, j), sub_term(c, fs, j - 1), fs[j - 1]) }
}
pub open spec fn acc_steps_ok(t: Seq<(SortedIds, F64)>, fss: Seq<Seq<v1::Function>>, n: int) -> bool decreases n {
    if n <= 0 { true } else {
        let v = sub_term(t[n - 1].1, fss[n - 1], fss[n - 1].len() as int);
        acc_steps_ok(t, fss, n - 1) && term_steps_ok(t[n - 1].1, fss[n - 1], fss[n - 1].len() as int) && is_sum(sub_acc(t, fss, n), sub_acc(t, fss, n - 1), v)
    }
}
// mathematical value of the composition: c * prod val(factor_j),  summed over the terms
pub open spec fn sub_mono(c: real, fs: Seq<v1::Function>, j: int, m: Map<u64, F64>) -> real decreases j {
    if j <= 0 { c } else { sub_mono(c, fs, j - 1, m) * fn_val(fs[j - 1], m) }
}
pub open spec fn sub_sum(t: Seq<(SortedIds, F64)>, fss: Seq<Seq<v1::Function>>, n: int, m: Map<u64, F64>) -> real decreases n {
    if n <= 0 { 0real } else { sub_sum(t, fss, n - 1, m) + sub_mono(rv(t[n - 1].1), fss[n - 1], fss[n - 1].len() as int, m) }
}
// accumulated epsilon-drop remainders of the operator calls
pub open spec fn term_rem(c: F64, fs: Seq<v1::Function>, j: int, m: Map<u64, F64>) -> real decreases j {
    if j <= 0 { 0real } else { term_rem(c, fs, j - 1, m) * fn_val(fs[j - 1], m) + mul_rem(sub_term(c, fs, j - 1), fs[j - 1], m) }
}
pub open spec fn acc_rem(t: Seq<(SortedIds, F64)>, fss: Seq<Seq<v1::Function>>, n: int, m: Map<u64, F64>) -> real decreases n {
    if n <= 0 { 0real } else {
        let v = sub_term(t[n - 1].1, fss[n - 1], fss[n - 1].len() as int);
        acc_rem(t, fss, n - 1, m) + term_rem(t[n - 1].1, fss[n - 1], fss[n - 1].len() as int, m) + add_rem(sub_acc(t, fss, n - 1), v, m)
    }
}
pub open spec fn fs_fin(fs: Seq<v1::Function>, j: int) -> bool { forall|k: int| 0 <= k < j ==> fn_fin(#[trigger] fs[k]) }

pub proof fn lemma_term_value(c: F64, fs: Seq<v1::Function>, j: int, m: Map<u64, F64>)
    requires 0 <= j <= fs.len(), fin(c), fs_fin(fs, j), term_steps_ok(c, fs, j)
    ensures fn_fin(sub_term(c, fs, j)), fn_val(sub_term(c, fs, j), m) == sub_mono(rv(c), fs, j, m) - term_rem(c, fs, j, m)
    decreases j
{
    if j > 0 {
        lemma_term_value(c, fs, j - 1, m);
        let p = sub_term(c, fs, j - 1); let g = fs[j - 1];
        assert(fn_fin(g));
        assert(fn_val(sub_term(c, fs, j), m) == fn_val(p, m) * fn_val(g, m) - mul_rem(p, g, m));
        let a = sub_mono(rv(c), fs, j - 1, m); let b = term_rem(c, fs, j - 1, m); let x = fn_val(g, m);
        assert((a - b) * x == a * x - b * x) by(nonlinear_arith);
    }
}
// value of the built function = sum of the composed monomials minus the explicit remainder
pub proof fn lemma_sub_value(t: Seq<(SortedIds, F64)>, fss: Seq<Seq<v1::Function>>, n: int, m: Map<u64, F64>)
    requires 0 <= n <= t.len(), n <= fss.len(), terms_coef_fin(t), forall|i: int| 0 <= i < n ==> fs_fin(#[trigger] fss[i], fss[i].len() as int), acc_steps_ok(t, fss, n)
    ensures fn_fin(sub_acc(t, fss, n)), fn_val(sub_acc(t, fss, n), m) == sub_sum(t, fss, n, m) - acc_rem(t, fss, n, m)
    decreases n
{
    broadcast use ax_zero_f64;
    if n > 0 {
        lemma_sub_value(t, fss, n - 1, m);
        assert(fin(t[n - 1].1));
        assert(fs_fin(fss[n - 1], fss[n - 1].len() as int));
        lemma_term_value(t[n - 1].1, fss[n - 1], fss[n - 1].len() as int, m);
    }
}
// composition: when every factor is correct, the composed monomial equals the monomial at the state m2 in which every replaced variable
// holds the value of its replacement at m (and every other variable its own value)
pub open spec fn composed_state(m2: Map<u64, F64>, m: Map<u64, F64>, rep: Map<u64, v1::Function>, ids: Seq<u64>) -> bool {
    forall|k: int| 0 <= k < ids.len() ==> sval(m2, #[trigger] ids[k]) == (if rep.contains_key(ids[k]) { fn_val(rep[ids[k]], m) } else { sval(m, ids[k]) })
}
pub proof fn lemma_mono_compose(c: real, ids: Seq<u64>, fs: Seq<v1::Function>, rep: Map<u64, v1::Function>, j: int, m: Map<u64, F64>, m2: Map<u64, F64>)
    requires 0 <= j <= ids.len(), factors_ok(ids, fs, rep, j), composed_state(m2, m, rep, ids)
    ensures sub_mono(c, fs, j, m) == mono_val(c, ids, j, m2)
    decreases j
{
    if j > 0 {
        lemma_mono_compose(c, ids, fs, rep, j - 1, m, m2);
        assert(factor_ok(fs[j - 1], ids[j - 1], rep));
        assert(fn_val(fs[j - 1], m) == sval(m2, ids[j - 1]));
    }
}
pub proof fn lemma_sub_compose(t: Seq<(SortedIds, F64)>, fss: Seq<Seq<v1::Function>>, rep: Map<u64, v1::Function>, n: int, m: Map<u64, F64>, m2: Map<u64, F64>)
    requires 0 <= n <= t.len(), all_factors_ok(t, fss, rep, n), forall|i: int| 0 <= i < n ==> composed_state(m2, m, rep, (#[trigger] t[i]).0@)
    ensures sub_sum(t, fss, n, m) == tsum(t, n, m2)
    decreases n
{
    if n > 0 {
        lemma_sub_compose(t, fss, rep, n - 1, m, m2);
        assert(fss[n - 1].len() == t[n - 1].0@.len());
        lemma_mono_compose(rv(t[n - 1].1), t[n - 1].0@, fss[n - 1], rep, fss[n - 1].len() as int, m, m2);
    }
}
// the value of a single-term linear function 1 * x_id + 0 is x_id
pub proof fn lemma_single_val(l: v1::Linear, id: u64, m: Map<u64, F64>)
    requires l.terms@.len() == 1, l.terms@[0].id == id, l.terms@[0].coefficient@ == XR::Fin(1real), l.constant@ == XR::Fin(0real)
    ensures linear_val(l, m) == sval(m, id), linear_fin(l)
{
    assert(lin_sum(l.terms@, 1, m) == lin_sum(l.terms@, 0, m) + rv(l.terms@[0].coefficient) * sval(m, l.terms@[0].id));
    assert(1real * sval(m, id) == sval(m, id)) by(nonlinear_arith);
}
// extensionality: the recursive definitions only read the first j (n) entries
pub proof fn lemma_sub_term_ext(c: F64, a: Seq<v1::Function>, b: Seq<v1::Function>, j: int)
    requires 0 <= j <= a.len(), j <= b.len(), forall|q: int| 0 <= q < j ==> a[q] == b[q]
    ensures sub_term(c, a, j) == sub_term(c, b, j)
    decreases j
{ if j > 0 { lemma_sub_term_ext(c, a, b, j - 1); } }
pub proof fn lemma_term_steps_ext(c: F64, a: Seq<v1::Function>, b: Seq<v1::Function>, j: int)
    requires 0 <= j <= a.len(), j <= b.len(), forall|q: int| 0 <= q < j ==> a[q] == b[q]
    ensures term_steps_ok(c, a, j) == term_steps_ok(c, b, j)
    decreases j
{ if j > 0 { lemma_term_steps_ext(c, a, b, j - 1); lemma_sub_term_ext(c, a, b, j); lemma_sub_term_ext(c, a, b, j - 1); } }
pub proof fn lemma_sub_acc_ext(t: Seq<(SortedIds, F64)>, a: Seq<Seq<v1::Function>>, b: Seq<Seq<v1::Function>>, n: int)
    requires 0 <= n <= a.len(), n <= b.len(), forall|q: int| 0 <= q < n ==> a[q] == b[q]
    ensures sub_acc(t, a, n) == sub_acc(t, b, n)
    decreases n
{ if n > 0 { lemma_sub_acc_ext(t, a, b, n - 1); } }
pub proof fn lemma_acc_steps_ext(t: Seq<(SortedIds, F64)>, a: Seq<Seq<v1::Function>>, b: Seq<Seq<v1::Function>>, n: int)
    requires 0 <= n <= a.len(), n <= b.len(), forall|q: int| 0 <= q < n ==> a[q] == b[q]
    ensures acc_steps_ok(t, a, n) == acc_steps_ok(t, b, n)
    decreases n
{ if n > 0 { lemma_acc_steps_ext(t, a, b, n - 1); lemma_sub_acc_ext(t, a, b, n); lemma_sub_acc_ext(t, a, b, n - 1); } }
// (formerly axioms) the enumerated terms sum to the polynomial and carry its coefficients: consequences of the PROVED contract of the term iterators
pub proof fn lemma_tsum_kseq(t: Seq<(SortedIds, F64)>, n: int, m: Map<u64, F64>)
    requires 0 <= n <= t.len()
    ensures tsum(t, n, m) == kseq_sum(sitems(t), n, pw(m))
    decreases n
{ if n > 0 { lemma_tsum_kseq(t, n - 1, m); lemma_mono_unit(rv(t[n - 1].1), t[n - 1].0@, t[n - 1].0@.len() as int, m); } }
pub proof fn lemma_fn_terms(f: v1::Function, m: Map<u64, F64>)
    requires fn_coo_ok(f), fn_titems_ok(fn_terms(f), f)
    ensures tsum(fn_terms(f), fn_terms(f).len() as int, m) == fn_val(f, m)
{ lemma_fn_titems_sum(fn_terms(f), f, m); lemma_tsum_kseq(fn_terms(f), fn_terms(f).len() as int, m); }
pub proof fn lemma_fn_terms_fin(f: v1::Function)
    requires fn_fin(f), fn_coo_ok(f), fn_titems_ok(fn_terms(f), f)
    ensures terms_coef_fin(fn_terms(f))
{ assert forall|i: int| 0 <= i < fn_terms(f).len() implies fin((#[trigger] fn_terms(f)[i]).1) by { lemma_fn_titems_from(fn_terms(f), f, i); } }
pub open spec fn rep_ok(rep: Map<u64, v1::Function>) -> bool { forall|k: u64| #[trigger] rep.contains_key(k) ==> rep[k].function is Some && fn_fin(rep[k]) }
// THE PROPERTY (function level): the value of the substituted function at m is the value of the original at the state m2 in which every replaced
// variable holds the value of its replacement at m - minus the explicit accumulated epsilon-drop remainder of the operator calls
pub proof fn lemma_substitute_value(f: v1::Function, rep: Map<u64, v1::Function>, fss: Seq<Seq<v1::Function>>, m: Map<u64, F64>, m2: Map<u64, F64>)
    requires fn_fin(f), rep_ok(rep), fn_coo_ok(f), fn_titems_ok(fn_terms(f), f),
        all_factors_ok(fn_terms(f), fss, rep, fn_terms(f).len() as int), acc_steps_ok(fn_terms(f), fss, fn_terms(f).len() as int),
        forall|i: int| 0 <= i < fn_terms(f).len() ==> composed_state(m2, m, rep, (#[trigger] fn_terms(f)[i]).0@),
    ensures fn_val(sub_acc(fn_terms(f), fss, fn_terms(f).len() as int), m) == fn_val(f, m2) - acc_rem(fn_terms(f), fss, fn_terms(f).len() as int, m)
{
    let t = fn_terms(f); let n = t.len() as int;
    lemma_fn_terms(f, m2); lemma_fn_terms_fin(f);
    assert forall|i: int| 0 <= i < n implies fs_fin(#[trigger] fss[i], fss[i].len() as int) by {
        assert(factors_ok(t[i].0@, fss[i], rep, fss[i].len() as int));
        assert forall|k: int| 0 <= k < fss[i].len() implies fn_fin(#[trigger] fss[i][k]) by { assert(factor_ok(fss[i][k], t[i].0@[k], rep)); }
    }
    lemma_sub_value(t, fss, n, m);
    lemma_sub_compose(t, fss, rep, n, m, m2);
}
