// ===== spec/fn_algebra_rem.rs : the epsilon-drop remainders of the Function operators, left uninterpreted where the operators are assumed (C09/C13/C15); C02 defines them by cases =====
pub uninterp spec fn add_rem(a: v1::Function, b: v1::Function, m: Map<u64, F64>) -> real;
pub uninterp spec fn mul_rem(a: v1::Function, b: v1::Function, m: Map<u64, F64>) -> real;
pub uninterp spec fn neg_rem(a: v1::Function, m: Map<u64, F64>) -> real;
