// ===== spec/solution_spec.rs : ghost vocabulary for C05 (hand-written) =====
pub open spec fn zero_fn() -> v1::Function { v1::Function { function: Some(v1::function::Function::Constant(zero_f64())) } }
pub uninterp spec fn zero_f64() -> F64;
pub broadcast axiom fn ax_zero_f64() ensures (#[trigger] zero_f64())@ == XR::Fin(0real);
pub open spec fn cfun(c: v1::Constraint) -> v1::Function { match c.function { Some(f) => f, None => zero_fn() } }
pub open spec fn ofun(i: v1::Instance) -> v1::Function { match i.objective { Some(f) => f, None => zero_fn() } }
pub open spec fn eq_ok(equality: i32) -> bool { equality == 1 || equality == 2 }
// the tolerance rule of the property statement: |f| < atol for equalities, f < atol for inequalities
pub open spec fn holds(equality: i32, v: XR, atol: XR) -> bool {
    if equality == 1 { xr_lt(xr_abs(v), atol) } else { xr_lt(v, atol) }
}
pub open spec fn ec_value_ok(f: v1::Function, st: Map<u64, F64>, v: F64) -> bool {
    (fn_fin(f) && state_fin(st) ==> v@ == XR::Fin(fn_val(f, st)))
    && (f.function is None ==> v@ == XR::Fin(0real))
    && (f.function is Some && f.function->Some_0 is Constant ==> v == f.function->Some_0->Constant_0)
}
pub open spec fn ec_of(c: v1::Constraint, st: Map<u64, F64>, ec: v1::EvaluatedConstraint) -> bool {
    &&& ec.id == c.id && ec.equality == c.equality && ec.name == c.name && ec.subscripts == c.subscripts
    &&& ec.parameters == c.parameters && ec.description == c.description
    &&& ec_value_ok(cfun(c), st, ec.evaluated_value)
    &&& ec.used_decision_variable_ids@.to_set() == fn_ids(cfun(c)) && ec.used_decision_variable_ids@.no_duplicates()
}
// flags: over the reported list (each reported value is characterised by ec_of); index recursion
pub open spec fn ec_holds(e: v1::EvaluatedConstraint, atol: XR) -> bool { holds(e.equality, e.evaluated_value@, atol) }
pub open spec fn out_hold(ecs: Seq<v1::EvaluatedConstraint>, n: int, atol: XR) -> bool decreases n {
    if n <= 0 { true } else { out_hold(ecs, n - 1, atol) && ec_holds(ecs[n - 1], atol) }
}
pub broadcast proof fn lemma_out_hold_push(s: Seq<v1::EvaluatedConstraint>, e: v1::EvaluatedConstraint, m: int, atol: XR)
    requires 0 <= m <= s.len() + 1
    ensures #[trigger] out_hold(s.push(e), m, atol) == (if m == s.len() + 1 { out_hold(s, m - 1, atol) && ec_holds(e, atol) } else { out_hold(s, m, atol) })
    decreases m
{
    if m > 0 {
        lemma_out_hold_push(s, e, m - 1, atol);
        if m == s.len() + 1 { assert(s.push(e)[m - 1] == e); } else { assert(s.push(e)[m - 1] == s[m - 1]); }
    }
}
// out_hold as a quantified statement (what a reader wants to see)
pub proof fn lemma_out_hold_forall(s: Seq<v1::EvaluatedConstraint>, n: int, atol: XR)
    requires 0 <= n <= s.len()
    ensures out_hold(s, n, atol) <==> forall|i: int| 0 <= i < n ==> ec_holds(#[trigger] s[i], atol)
    decreases n
{ if n > 0 { lemma_out_hold_forall(s, n - 1, atol); } }
pub open spec fn active_ids(cs: Seq<v1::Constraint>, n: int) -> Set<u64> decreases n {
    if n <= 0 { Set::empty() } else { active_ids(cs, n - 1).union(fn_ids(cfun(cs[n - 1]))) }
}
pub open spec fn removed_ids(rs: Seq<v1::RemovedConstraint>, n: int) -> Set<u64> decreases n {
    if n <= 0 { Set::empty() } else { removed_ids(rs, n - 1).union(fn_ids(cfun(rs[n - 1].constraint->Some_0))) }
}
pub open spec fn inst_used_ids(i: v1::Instance) -> Set<u64> {
    active_ids(i.constraints@, i.constraints.len() as int).union(removed_ids(i.removed_constraints@, i.removed_constraints.len() as int)).union(fn_ids(ofun(i)))
}
// bounds of decision variables: unset = unbounded, [0,1] for binaries (kind code 1)
pub open spec fn dv_lower(v: v1::DecisionVariable) -> XR { match v.bound { Some(b) => b.lower@, None => if v.kind == 1 { XR::Fin(0real) } else { XR::NegInf } } }
pub open spec fn dv_upper(v: v1::DecisionVariable) -> XR { match v.bound { Some(b) => b.upper@, None => if v.kind == 1 { XR::Fin(1real) } else { XR::PosInf } } }
pub open spec fn dv_bound_ok(v: v1::DecisionVariable) -> bool { inv(dv_lower(v), dv_upper(v)) }
// the map built by get_bounds: last definition of an id wins (HashMap::insert), every defined id present
pub open spec fn bounds_of(dvs: Seq<v1::DecisionVariable>, n: int, b: Map<VariableID, Bound>) -> bool {
    &&& forall|i: int| 0 <= i < n ==> b.contains_key(VariableID((#[trigger] dvs[i]).id))
    &&& forall|k: VariableID| b.contains_key(k) ==> exists|i: int| 0 <= i < n && (#[trigger] dvs[i]).id == k.0
            && (forall|j: int| i < j < n ==> (#[trigger] dvs[j]).id != k.0)
            && b[k].wf() && b[k].lower@ == dv_lower(dvs[i]) && b[k].upper@ == dv_upper(dvs[i])
}
pub open spec fn last_def(dvs: Seq<v1::DecisionVariable>, i: int) -> bool { forall|j: int| i < j < dvs.len() ==> (#[trigger] dvs[j]).id != dvs[i].id }
pub open spec fn in_tol(l: XR, u: XR, x: XR, atol: XR) -> bool { xr_le(xr_sub(l, atol), x) && xr_le(x, xr_add(u, atol)) }
pub open spec fn value_in_bounds(dvs: Seq<v1::DecisionVariable>, k: u64, x: XR, atol: XR) -> bool {
    forall|i: int| 0 <= i < dvs.len() && (#[trigger] dvs[i]).id == k && last_def(dvs, i) ==> in_tol(dv_lower(dvs[i]), dv_upper(dvs[i]), x, atol)
}
pub open spec fn state_in_bounds(dvs: Seq<v1::DecisionVariable>, st: Map<u64, F64>, atol: XR) -> bool {
    forall|k: u64| st.contains_key(k) ==> value_in_bounds(dvs, k, (#[trigger] st[k])@, atol)
}
// previously fixed values are written over the given state, in list order
pub open spec fn subst_map(dvs: Seq<v1::DecisionVariable>, n: int, m: Map<u64, F64>) -> Map<u64, F64> decreases n {
    if n <= 0 { m } else {
        let p = subst_map(dvs, n - 1, m);
        match dvs[n - 1].substituted_value { Some(x) => p.insert(dvs[n - 1].id, x), None => p }
    }
}
// x is the point of [l,u] nearest to zero
pub open spec fn is_ntz(l: XR, u: XR, x: XR) -> bool {
    x is Fin && xr_le(l, x) && xr_le(x, u) && forall|y: real| xr_le(l, XR::Fin(y)) && xr_le(XR::Fin(y), u) ==> rabs(x->Fin_0) <= #[trigger] rabs(y)
}
