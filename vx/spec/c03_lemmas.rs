// ===== property lemmas of C03 (ghost, from the contracts only) =====
// a state split into a fixed part and a remaining part (disjoint domains)
pub open spec fn join(fixed: Map<u64, F64>, rest: Map<u64, F64>) -> Map<u64, F64> {
    Map::new(fixed.dom().union(rest.dom()), |k: u64| if fixed.contains_key(k) { fixed[k] } else { rest[k] })
}
pub open spec fn split_ok(fixed: Map<u64, F64>, rest: Map<u64, F64>) -> bool { forall|k: u64| #[trigger] fixed.contains_key(k) ==> !rest.contains_key(k) }
// commutation: evaluating the partially evaluated function at the remaining values = evaluating the original at the combined assignment
pub proof fn lemma_pe_commutes(o: Function, n: Function, fixed: Map<u64, F64>, used: Set<u64>, rest: Map<u64, F64>)
    requires pe_rel(o, n, fixed, used), fn_fin(o), state_fin(fixed), fn_present(n, rest), split_ok(fixed, rest)
    ensures fn_present(n, join(fixed, rest)),
        fn_val(n, rest) == fn_val(o, join(fixed, rest)) - fn_pe_rem(o, fixed, join(fixed, rest)),
{
    let m = join(fixed, rest);
    assert(agree(fixed, m));
    assert(submap(rest, m));
    lemma_fn_agree(n, rest, m);     // value locality (spec/dep_spec.rs)
    assert(fn_val(n, m) == fn_val(o, m) - fn_pe_rem(o, fixed, m));
}
// fixing in two steps (s1 then s2) = fixing at once (s1 u s2), at every total assignment that extends both parts;
// for constant and linear functions all three remainders are 0, i.e. the values coincide exactly
pub proof fn lemma_pe_two_steps(o: Function, a: Function, b: Function, c: Function, s1: Map<u64, F64>, s2: Map<u64, F64>,
        u1: Set<u64>, u2: Set<u64>, u12: Set<u64>, m: Map<u64, F64>)
    requires pe_rel(o, a, s1, u1), pe_rel(a, b, s2, u2), pe_rel(o, c, join(s1, s2), u12), split_ok(s1, s2),
        fn_fin(o), state_fin(s1), state_fin(s2), agree(s1, m), agree(s2, m),
    ensures fn_val(b, m) + fn_pe_rem(a, s2, m) + fn_pe_rem(o, s1, m) == fn_val(c, m) + fn_pe_rem(o, join(s1, s2), m),
{
    assert(fn_val(a, m) == fn_val(o, m) - fn_pe_rem(o, s1, m));
    assert(fn_fin(a));
    assert(fn_val(b, m) == fn_val(a, m) - fn_pe_rem(a, s2, m));
    let s12 = join(s1, s2);
    assert(state_fin(s12)) by { assert forall|k: u64| s12.contains_key(k) implies fin(#[trigger] s12[k]) by { if s1.contains_key(k) { assert(s12[k] == s1[k]); } else { assert(s12[k] == s2[k]); } } }
    assert(agree(s12, m)) by { assert forall|k: u64| #[trigger] s12.contains_key(k) implies m.contains_key(k) && m[k] == s12[k] by { if s1.contains_key(k) { assert(m[k] == s1[k]); } else { assert(s2.contains_key(k)); assert(m[k] == s2[k]); } } }
    assert(fn_val(c, m) == fn_val(o, m) - fn_pe_rem(o, s12, m));
}
