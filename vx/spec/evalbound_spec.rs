// ===== spec/evalbound_spec.rs : ghost definitions for Function::evaluate_bound (hand-written, independent of /repo) =====
// SortedIds (sorted_ids.rs, extracted newtype over Vec<u64>): its view is the sequence of ids (with repetitions).
impl View for SortedIds { type V = Seq<u64>; open spec fn view(&self) -> Seq<u64> { self.0@ } }

// value of a term list: sum of coefficient * product of the values of the ids
pub open spec fn tsum(t: Seq<(SortedIds, F64)>, n: int, m: Map<u64, F64>) -> real decreases n {
    if n <= 0 { 0real } else { tsum(t, n - 1, m) + mono_val(rv(t[n - 1].1), t[n - 1].0@, t[n - 1].0@.len() as int, m) }
}
// value of a chunk list (id, exponent): c * prod x_id^exp
pub open spec fn chunk_val(c: real, ch: Seq<(u64, usize)>, k: int, m: Map<u64, F64>) -> real decreases k {
    if k <= 0 { c } else { chunk_val(c, ch, k - 1, m) * rpow(sval(m, ch[k - 1].0), ch[k - 1].1 as nat) }
}
pub proof fn lemma_chunk_scale(c: real, ch: Seq<(u64, usize)>, k: int, m: Map<u64, F64>)
    requires 0 <= k <= ch.len()
    ensures chunk_val(c, ch, k, m) == c * chunk_val(1real, ch, k, m)
    decreases k
{
    if k > 0 {
        lemma_chunk_scale(c, ch, k - 1, m);
        let a = chunk_val(1real, ch, k - 1, m); let p = rpow(sval(m, ch[k - 1].0), ch[k - 1].1 as nat);
        assert((c * a) * p == c * (a * p)) by(nonlinear_arith);
    } else {
        assert(c * 1real == c) by(nonlinear_arith);
    }
}
pub proof fn lemma_unbounded_contains(b: Bound, x: real)
    requires b.lower@ == XR::NegInf, b.upper@ == XR::PosInf
    ensures contains(b, x)
{}
pub proof fn lemma_mono_zero(ids: Seq<u64>, j: int, m: Map<u64, F64>)
    requires 0 <= j <= ids.len()
    ensures mono_val(0real, ids, j, m) == 0real
    decreases j
{
    if j > 0 { lemma_mono_zero(ids, j - 1, m); assert(0real * sval(m, ids[j - 1]) == 0real) by(nonlinear_arith); }
}
