// ===== spec/slack_spec.rs : vocabulary for C13 (integer slack conversions) =====
// pure-function names of the callees (results are functions of the operands)
pub uninterp spec fn fn_scale(a: F64, f: v1::Function) -> v1::Function;                 // a * f   (impl_mul_inverse!(f64, Function))
pub uninterp spec fn fn_add_linear(f: v1::Function, l: v1::Linear) -> v1::Function;     // f + l   (impl_add_from!(Function, Linear))
pub uninterp spec fn scale_rem(a: F64, f: v1::Function, m: Map<u64, F64>) -> real;
pub uninterp spec fn addl_rem(f: v1::Function, l: v1::Linear, m: Map<u64, F64>) -> real;
pub open spec fn is_scaled(r: v1::Function, a: F64, f: v1::Function) -> bool {
    &&& r.function is Some && fn_ids(r).subset_of(fn_ids(f))
    &&& a@ is Fin && fn_fin(f) ==> fn_fin(r) && forall|m: Map<u64, F64>| #![trigger fn_val(r, m)] fn_val(r, m) == a@->Fin_0 * fn_val(f, m) - scale_rem(a, f, m)
}
pub open spec fn is_sum_linear(r: v1::Function, f: v1::Function, l: v1::Linear) -> bool {
    &&& r.function is Some && fn_ids(r).subset_of(fn_ids(f).union(linear_ids(l)))
    &&& fn_fin(f) && linear_fin(l) ==> fn_fin(r) && forall|m: Map<u64, F64>| #![trigger fn_val(r, m)] fn_val(r, m) == fn_val(f, m) + linear_val(l, m) - addl_rem(f, l, m)
}
// kinds: last definition of an id wins (HashMap collect)
pub open spec fn kinds_of(dvs: Seq<v1::DecisionVariable>, k: Map<VariableID, v1::decision_variable::Kind>) -> bool {
    &&& forall|i: int| 0 <= i < dvs.len() ==> k.contains_key(VariableID((#[trigger] dvs[i]).id))
    &&& forall|x: VariableID| k.contains_key(x) ==> exists|i: int| 0 <= i < dvs.len() && (#[trigger] dvs[i]).id == x.0 && k[x] == kind_from_i32(dvs[i].kind)
}
// an assignment inside the box given by the bounds map (ids without an entry are unbounded) with finite values
// integer-valued assignment on a set of ids
pub open spec fn int_state(m: Map<u64, F64>, ids: Set<u64>) -> bool { forall|k: u64| #[trigger] ids.contains(k) ==> m.contains_key(k) && m[k]@ is Fin && is_intr(m[k]@->Fin_0) }
// "unchanged": every field equal, the constraint list compared element-wise
pub open spec fn same_inst(a: v1::Instance, b: v1::Instance) -> bool { a.constraints@ =~= b.constraints@ && a == (v1::Instance { constraints: a.constraints, ..b }) }
// first active constraint with the id
pub open spec fn has_c(cs: Seq<v1::Constraint>, id: u64) -> bool { exists|i: int| 0 <= i < cs.len() && (#[trigger] cs[i]).id == id }
// all used variables are defined and integer or binary (kind codes 1 = binary, 2 = integer)
pub open spec fn int_kind_id(dvs: Seq<v1::DecisionVariable>, k: u64) -> bool { exists|i: int| 0 <= i < dvs.len() && (#[trigger] dvs[i]).id == k && (dvs[i].kind == 1 || dvs[i].kind == 2) }
pub open spec fn all_int_kind(dvs: Seq<v1::DecisionVariable>, ids: Set<u64>) -> bool { forall|k: u64| #[trigger] ids.contains(k) ==> int_kind_id(dvs, k) }

// ---- the equivalence lemmas (pure arithmetic over reals with the integrality predicate) ----
// f(x) <= 0  <==>  exists integer s in [0, -L] with f(x) + s/a = 0,  when a > 0, a*f(x) is an integer and L <= a*f(x)
pub proof fn lemma_slack_equiv(v: real, a: real, big_l: real)
    requires a > 0real, is_intr(a * v), big_l <= a * v
    ensures v <= 0real <==> exists|s: real| is_intr(s) && 0real <= s <= -big_l && #[trigger] slack_eq(v, s, a)
{
    ax_int_consts();
    if v <= 0real {
        let s = -(a * v);
        ax_int_add(0real, a * v);
        assert(0real - a * v == s);
        assert(a * v <= 0real) by(nonlinear_arith) requires a > 0real, v <= 0real;
        assert(v + s / a == 0real) by(nonlinear_arith) requires a > 0real, s == -(a * v);
        assert(is_intr(s) && 0real <= s <= -big_l && slack_eq(v, s, a));
    }
    if exists|s: real| is_intr(s) && 0real <= s <= -big_l && #[trigger] slack_eq(v, s, a) {
        let s = choose|s: real| is_intr(s) && 0real <= s <= -big_l && #[trigger] slack_eq(v, s, a);
        assert(v <= 0real) by(nonlinear_arith) requires a > 0real, s >= 0real, v + s / a == 0real;
    }
}
pub open spec fn slack_eq(v: real, s: real, a: real) -> bool { v + s / a == 0real }
// f(x) <= 0  <==>  exists integer s in [0, S] with f(x) + b*s <= 0, where b = -lower/S >= 0 (projection onto x unchanged)
pub proof fn lemma_slack_add_equiv(v: real, b: real, big_s: real)
    requires b >= 0real, big_s >= 0real
    ensures v <= 0real <==> exists|s: real| is_intr(s) && 0real <= s <= big_s && #[trigger] slack_le(v, s, b)
{
    ax_int_consts();
    if v <= 0real { assert(b * 0real == 0real) by(nonlinear_arith); assert(slack_le(v, 0real, b)); }
    if exists|s: real| is_intr(s) && 0real <= s <= big_s && #[trigger] slack_le(v, s, b) {
        let s = choose|s: real| is_intr(s) && 0real <= s <= big_s && #[trigger] slack_le(v, s, b);
        assert(b * s >= 0real) by(nonlinear_arith) requires b >= 0real, s >= 0real;
    }
}
pub open spec fn slack_le(v: real, s: real, b: real) -> bool { v + b * s <= 0real }
pub open spec fn slack_post(o: v1::Instance, n: v1::Instance, cid: u64, max_range: u64, a: F64, big_l: real) -> bool {
    let i = first_active(o.constraints@, cid); let c = o.constraints[i]; let f = c.function->Some_0;
    let s = n.decision_variables@.last();
    &&& a@ is Fin && a@->Fin_0 > 0real && is_intr(big_l) && big_l <= 0real && -big_l <= max_range as real
    // the new variable: fresh id, integer kind, bound [0, -L], tagged with the constraint id
    &&& n.decision_variables@ == o.decision_variables@.push(s)
    &&& next_or_zero(o.decision_variables@, s.id) && s.kind == 2 && s.subscripts@ =~= seq![cid as i64] && s.name is Some && s.substituted_value is None
    &&& s.bound is Some && s.bound->Some_0.lower@ == XR::Fin(0real) && s.bound->Some_0.upper@ == XR::Fin(-big_l)
    // the constraint: same position, same id and metadata, equality = EqualToZero (code 1), function f + (1/a) * s
    &&& exists|lin: v1::Linear| #![trigger fn_add_linear(f, lin)]
            n.constraints@ == o.constraints@.update(i, v1::Constraint { function: Some(fn_add_linear(f, lin)), equality: 1, ..c })
            && lin.terms.len() == 1 && lin.terms[0].id == s.id && lin.terms[0].coefficient@ == XR::Fin(1real / a@->Fin_0) && lin.constant@ == XR::Fin(0real)
            && is_sum_linear(fn_add_linear(f, lin), f, lin)
    // L bounds a*f from below on integer points of the variables' box (interval enclosure rounded to integers)
    &&& is_scaled(fn_scale(a, f), a, f)
    &&& exists|b: Map<VariableID, Bound>| #![trigger bounds_of(o.decision_variables@, o.decision_variables.len() as int, b)]
            bounds_of(o.decision_variables@, o.decision_variables.len() as int, b)
            && (fn_fin(fn_scale(a, f)) ==> forall|m: Map<u64, F64>| #![trigger fn_val(fn_scale(a, f), m)]
                in_box(m, b, fn_ids(fn_scale(a, f))) && is_intr(fn_val(fn_scale(a, f), m)) ==> big_l <= fn_val(fn_scale(a, f), m))
    // everything else untouched
    &&& n == (v1::Instance { decision_variables: n.decision_variables, constraints: n.constraints, ..o })
}
// add_integer_slack_to_inequality: f(x) <= 0 becomes f(x) + b*s <= 0 with s in [0, S], b = -lower/S
pub open spec fn slack_add_post(o: v1::Instance, n: v1::Instance, cid: u64, big_s: u64, b: F64, lower: XR) -> bool {
    let i = first_active(o.constraints@, cid); let c = o.constraints[i]; let f = c.function->Some_0;
    let s = n.decision_variables@.last();
    &&& lower is Fin && big_s > 0 ==> b@ == XR::Fin(-(lower->Fin_0) / (big_s as real)) && lower->Fin_0 <= 0real
    &&& n.decision_variables@ == o.decision_variables@.push(s)
    &&& next_or_zero(o.decision_variables@, s.id) && s.kind == 2 && s.subscripts@ =~= seq![cid as i64] && s.name is Some && s.substituted_value is None
    &&& s.bound is Some && s.bound->Some_0.lower@ == XR::Fin(0real) && s.bound->Some_0.upper@ == XR::Fin(big_s as real)
    // the constraint keeps its position, id, metadata AND its equality kind (still an inequality); function f + b * s
    &&& exists|lin: v1::Linear| #![trigger fn_add_linear(f, lin)]
            n.constraints@ == o.constraints@.update(i, v1::Constraint { function: Some(fn_add_linear(f, lin)), ..c })
            && lin.terms.len() == 1 && lin.terms[0].id == s.id && lin.terms[0].coefficient == b && lin.constant@ == XR::Fin(0real)
            && is_sum_linear(fn_add_linear(f, lin), f, lin)
    // `lower` is the lower end of an interval enclosure of f over the variables' box
    &&& exists|bm: Map<VariableID, Bound>| #![trigger bounds_of(o.decision_variables@, o.decision_variables.len() as int, bm)]
            bounds_of(o.decision_variables@, o.decision_variables.len() as int, bm)
            && (fn_fin(f) ==> forall|m: Map<u64, F64>| #![trigger fn_val(f, m)] in_box(m, bm, fn_ids(f)) ==> xr_le(lower, XR::Fin(fn_val(f, m))))
    &&& n == (v1::Instance { decision_variables: n.decision_variables, constraints: n.constraints, ..o })
}
// "interval analysis shows g <= 0 on the variables' box" (on its integer-valued points when int_only)
pub open spec fn always_le0(dvs: Seq<v1::DecisionVariable>, g: v1::Function, int_only: bool) -> bool {
    exists|b: Map<VariableID, Bound>| #![trigger bounds_of(dvs, dvs.len() as int, b)] bounds_of(dvs, dvs.len() as int, b)
        && (fn_fin(g) ==> forall|m: Map<u64, F64>| #![trigger fn_val(g, m)] in_box(m, b, fn_ids(g)) && (int_only ==> is_intr(fn_val(g, m))) ==> fn_val(g, m) <= 0real)
}
pub open spec fn moved_ok(o: v1::Instance, cid: u64, a: F64) -> bool {
    let f = o.constraints[first_active(o.constraints@, cid)].function->Some_0;
    a@ is Fin && a@->Fin_0 > 0real && is_scaled(fn_scale(a, f), a, f) && always_le0(o.decision_variables@, fn_scale(a, f), true)
}
