// ===== spec/logenc_spec.rs : complete-sequence argument for the log encoding, over reals with the integrality predicate =====
// closure of integrality (true facts about integers; the only additions to the floor/ceil characterisation)
pub axiom fn ax_int_consts() ensures is_intr(0real), is_intr(1real);
pub axiom fn ax_int_add(a: real, b: real) requires is_intr(a), is_intr(b) ensures is_intr(a + b), is_intr(a - b);

pub open spec fn p2(k: nat) -> real decreases k { if k == 0 { 1real } else { 2real * p2((k - 1) as nat) } }
pub proof fn lemma_p2(k: nat) ensures p2(k) >= 1real, is_intr(p2(k)), p2(k) == rpow(2real, k) decreases k {
    ax_int_consts();
    if k > 0 { lemma_p2((k - 1) as nat); ax_int_add(p2((k - 1) as nat), p2((k - 1) as nat)); }
}
// coefficient i of an n-bit log encoding of the range 0..=u
pub open spec fn coef(i: nat, n: nat, u: real) -> real { if i + 1 == n { u - p2((n - 1) as nat) + 1real } else { p2(i) } }
pub open spec fn enc(bits: Seq<bool>, k: nat, n: nat, u: real) -> real decreases k {
    if k == 0 { 0real } else { enc(bits, (k - 1) as nat, n, u) + if bits[k - 1] { coef((k - 1) as nat, n, u) } else { 0real } }
}
pub open spec fn bin(bits: Seq<bool>, k: nat) -> real decreases k {
    if k == 0 { 0real } else { bin(bits, (k - 1) as nat) + if bits[k - 1] { p2((k - 1) as nat) } else { 0real } }
}
pub open spec fn bits_of(k: nat, v: real) -> Seq<bool> decreases k {
    if k == 0 { Seq::empty() } else {
        let h = p2((k - 1) as nat);
        bits_of((k - 1) as nat, if v >= h { v - h } else { v }).push(v >= h)
    }
}
pub proof fn lemma_bin_prefix(a: Seq<bool>, b: Seq<bool>, k: nat)
    requires k <= a.len(), k <= b.len(), forall|i: int| 0 <= i < k ==> a[i] == b[i]
    ensures bin(a, k) == bin(b, k)
    decreases k
{ if k > 0 { lemma_bin_prefix(a, b, (k - 1) as nat); } }
pub proof fn lemma_bits_of(k: nat, v: real)
    requires is_intr(v), 0real <= v < p2(k)
    ensures bits_of(k, v).len() == k, bin(bits_of(k, v), k) == v
    decreases k
{
    ax_int_consts();
    if k == 0 { ax_discrete(v, 0real); }
    else {
        let h = p2((k - 1) as nat);
        lemma_p2((k - 1) as nat);
        let w = if v >= h { v - h } else { v };
        if v >= h { ax_int_add(v, h); }
        lemma_bits_of((k - 1) as nat, w);
        let lowb = bits_of((k - 1) as nat, w);
        lemma_bin_prefix(lowb, bits_of(k, v), (k - 1) as nat);
    }
}
pub proof fn lemma_bin_range(bits: Seq<bool>, k: nat)
    requires k <= bits.len()
    ensures 0real <= bin(bits, k) <= p2(k) - 1real, is_intr(bin(bits, k))
    decreases k
{
    ax_int_consts();
    if k > 0 { lemma_bin_range(bits, (k - 1) as nat); lemma_p2((k - 1) as nat); ax_int_add(bin(bits, (k - 1) as nat), p2((k - 1) as nat)); }
}
pub proof fn lemma_enc_low(bits: Seq<bool>, k: nat, n: nat, u: real)
    requires k < n, k <= bits.len()
    ensures enc(bits, k, n, u) == bin(bits, k)
    decreases k
{ if k > 0 { lemma_enc_low(bits, (k - 1) as nat, n, u); } }
// (1) every bit pattern encodes an integer in 0..=u
pub proof fn lemma_enc_in_range(bits: Seq<bool>, n: nat, u: real)
    requires n >= 1, bits.len() == n, is_intr(u), p2((n - 1) as nat) <= u < p2(n)
    ensures 0real <= enc(bits, n, n, u) <= u, is_intr(enc(bits, n, n, u))
{
    lemma_enc_low(bits, (n - 1) as nat, n, u);
    lemma_bin_range(bits, (n - 1) as nat);
    lemma_p2((n - 1) as nat);
    ax_int_consts();
    ax_int_add(u, p2((n - 1) as nat));
    ax_int_add(u - p2((n - 1) as nat), 1real);
    ax_int_add(bin(bits, (n - 1) as nat), u - p2((n - 1) as nat) + 1real);
}
// (2) every integer in 0..=u is encoded by some bit pattern
pub proof fn lemma_enc_onto(v: real, n: nat, u: real) -> (bits: Seq<bool>)
    requires n >= 1, is_intr(u), is_intr(v), p2((n - 1) as nat) <= u < p2(n), 0real <= v <= u
    ensures bits.len() == n, enc(bits, n, n, u) == v
{
    let h = p2((n - 1) as nat);
    let m = u - h + 1real;
    lemma_p2((n - 1) as nat);
    ax_int_consts();
    if v < h {
        lemma_bits_of((n - 1) as nat, v);
        let bits = bits_of((n - 1) as nat, v).push(false);
        lemma_enc_low(bits, (n - 1) as nat, n, u);
        lemma_bin_prefix(bits, bits_of((n - 1) as nat, v), (n - 1) as nat);
        bits
    } else {
        ax_int_add(u, h); ax_int_add(u - h, 1real); ax_int_add(v, m);
        assert(p2(n) == 2real * h);
        ax_discrete(m, h);
        lemma_bits_of((n - 1) as nat, v - m);
        let bits = bits_of((n - 1) as nat, v - m).push(true);
        lemma_enc_low(bits, (n - 1) as nat, n, u);
        lemma_bin_prefix(bits, bits_of((n - 1) as nat, v - m), (n - 1) as nat);
        bits
    }
}
