// ===== spec/merge_spec.rs : the BTreeMap merge of the operator leaves as a function of the inputs, and its value (hand-written, independent of /repo) =====
// the merge performed by the code, as a function of the processed prefix: accumulate the coefficient under its id, drop the entry when |sum| <= EPSILON
pub open spec fn acc(ch: Seq<v1::linear::Term>, n: int) -> Map<u64, real> decreases n {
    if n <= 0 { Map::empty() } else {
        let prev = acc(ch, n - 1);
        let t = ch[n - 1];
        let v = (if prev.contains_key(t.id) { prev[t.id] } else { 0real }) + rv(t.coefficient);
        if rabs(v) <= eps_real() { prev.remove(t.id) } else { prev.insert(t.id, v) }
    }
}
pub open spec fn map_matches(m: Map<u64, F64>, a: Map<u64, real>) -> bool {
    &&& forall|k: u64| m.contains_key(k) <==> a.contains_key(k)
    &&& forall|k: u64| m.contains_key(k) ==> (#[trigger] m[k])@ == XR::Fin(a[k])
}
// sum over a finite map: sum_k a[k] * x_k
pub open spec fn msum(a: Map<u64, real>, x: Map<u64, F64>) -> real
    decreases a.dom().len()
{
    if a.dom().len() == 0 { 0real } else { let k = a.dom().choose(); a[k] * sval(x, k) + msum(a.remove(k), x) }
}
pub proof fn lemma_msum_remove(a: Map<u64, real>, x: Map<u64, F64>, k: u64)
    requires a.contains_key(k)
    ensures msum(a, x) == a[k] * sval(x, k) + msum(a.remove(k), x)
    decreases a.dom().len()
{
    let c = a.dom().choose();
    assert(a.dom().len() > 0) by { if a.dom().len() == 0 { assert(a.dom() =~= Set::empty()); } }
    assert(a.dom().contains(c));
    if c != k {
        let ac = a.remove(c); let ak = a.remove(k);
        assert(ac.dom() =~= a.dom().remove(c)); assert(ak.dom() =~= a.dom().remove(k));
        lemma_msum_remove(ac, x, k);
        lemma_msum_remove(ak, x, c);
        assert(ac.remove(k) =~= ak.remove(c));
        assert(ac[k] == a[k]); assert(ak[c] == a[c]);
    }
}
// a sequence of terms that lists the map exactly once (distinct ids, every key, matching values) sums to the map sum
pub open spec fn lists_map(t: Seq<v1::linear::Term>, n: int, a: Map<u64, real>) -> bool {
    &&& 0 <= n <= t.len() && a.dom().len() == n
    &&& forall|i: int| 0 <= i < n ==> a.contains_key((#[trigger] t[i]).id) && t[i].coefficient@ == XR::Fin(a[t[i].id])
    &&& forall|i: int, j: int| 0 <= i < j < n ==> (#[trigger] t[i]).id != (#[trigger] t[j]).id
}
pub proof fn lemma_list_sum(t: Seq<v1::linear::Term>, n: int, a: Map<u64, real>, x: Map<u64, F64>)
    requires lists_map(t, n, a)
    ensures lin_sum(t, n, x) == msum(a, x)
    decreases n
{
    if n == 0 {
        assert(a.dom().len() == 0);
    } else {
        let k = t[n - 1].id;
        let a2 = a.remove(k);
        assert(a2.dom() =~= a.dom().remove(k));
        assert forall|i: int| 0 <= i < n - 1 implies a2.contains_key((#[trigger] t[i]).id) && t[i].coefficient@ == XR::Fin(a2[t[i].id]) by { assert(t[i].id != t[n - 1].id); }
        assert(lists_map(t, n - 1, a2));
        lemma_list_sum(t, n - 1, a2, x);
        lemma_msum_remove(a, x, k);
        assert(rv(t[n - 1].coefficient) == a[k]);
    }
}
pub proof fn lemma_acc_keys(ch: Seq<v1::linear::Term>, n: int, k: u64)
    requires 0 <= n <= ch.len(), acc(ch, n).contains_key(k)
    ensures lin_ids(ch, n).contains(k)
    decreases n
{
    if n > 0 { if ch[n - 1].id != k { lemma_acc_keys(ch, n - 1, k); } }
}
pub proof fn lemma_lin_ids_concat(a: Seq<v1::linear::Term>, b: Seq<v1::linear::Term>, n: int, k: u64)
    requires 0 <= n <= a.len() + b.len(), lin_ids(a + b, n).contains(k)
    ensures lin_ids(a, a.len() as int).contains(k) || lin_ids(b, b.len() as int).contains(k)
    decreases n
{
    if n > 0 {
        if (a + b)[n - 1].id == k {
            if n - 1 < a.len() { assert((a + b)[n - 1] == a[n - 1]); lemma_lin_ids_has(a, a.len() as int, n - 1); }
            else { assert((a + b)[n - 1] == b[n - 1 - a.len()]); lemma_lin_ids_has(b, b.len() as int, n - 1 - a.len()); }
        } else { lemma_lin_ids_concat(a, b, n - 1, k); }
    }
}
pub proof fn lemma_lin_ids_has(t: Seq<v1::linear::Term>, n: int, i: int)
    requires 0 <= i < n <= t.len()
    ensures lin_ids(t, n).contains(t[i].id)
    decreases n
{
    if i < n - 1 { lemma_lin_ids_has(t, n - 1, i); }
}
pub proof fn lemma_lin_sum_concat(a: Seq<v1::linear::Term>, b: Seq<v1::linear::Term>, n: int, x: Map<u64, F64>)
    requires 0 <= n <= b.len()
    ensures lin_sum(a + b, a.len() + n, x) == lin_sum(a, a.len() as int, x) + lin_sum(b, n, x)
    decreases n
{
    if n == 0 {
        lemma_lin_sum_prefix(a, a + b, a.len() as int, x);
    } else {
        lemma_lin_sum_concat(a, b, n - 1, x);
        assert((a + b)[a.len() + n - 1] == b[n - 1]);
    }
}
pub proof fn lemma_lin_sum_prefix(a: Seq<v1::linear::Term>, c: Seq<v1::linear::Term>, n: int, x: Map<u64, F64>)
    requires 0 <= n <= a.len(), n <= c.len(), forall|i: int| 0 <= i < n ==> a[i] == c[i]
    ensures lin_sum(a, n, x) == lin_sum(c, n, x)
    decreases n
{
    if n > 0 { lemma_lin_sum_prefix(a, c, n - 1, x); }
}
// (id, coefficient) pairs as terms
pub open spec fn pairs_fin(p: Seq<(u64, F64)>) -> bool { forall|i: int| 0 <= i < p.len() ==> fin((#[trigger] p[i]).1) }
pub open spec fn pairs_terms(p: Seq<(u64, F64)>) -> Seq<v1::linear::Term> { Seq::new(p.len(), |i: int| v1::linear::Term { id: p[i].0, coefficient: p[i].1 }) }
// strictly increasing ids and coefficients that are not dropped: the merge is the input itself
pub open spec fn incr_kept(p: Seq<(u64, F64)>) -> bool {
    (forall|i: int, j: int| 0 <= i < j < p.len() ==> (#[trigger] p[i]).0 < (#[trigger] p[j]).0)
    && (forall|i: int| 0 <= i < p.len() ==> (#[trigger] p[i]).1@ is Fin && rabs(p[i].1@->Fin_0) > eps_real())
}
pub proof fn lemma_acc_incr(p: Seq<(u64, F64)>, n: int)
    requires incr_kept(p), 0 <= n <= p.len()
    ensures acc(pairs_terms(p), n).dom().len() == n,
        forall|i: int| 0 <= i < n ==> acc(pairs_terms(p), n).contains_key((#[trigger] p[i]).0) && acc(pairs_terms(p), n)[p[i].0] == rv(p[i].1),
        forall|k: u64| #[trigger] acc(pairs_terms(p), n).contains_key(k) ==> exists|i: int| 0 <= i < n && (#[trigger] p[i]).0 == k,
    decreases n
{
    let ch = pairs_terms(p);
    if n > 0 {
        lemma_acc_incr(p, n - 1);
        let prev = acc(ch, n - 1); let t = ch[n - 1];
        assert(t.id == p[n - 1].0 && t.coefficient == p[n - 1].1);
        assert(!prev.contains_key(t.id)) by { if prev.contains_key(t.id) { let i = choose|i: int| 0 <= i < n - 1 && (#[trigger] p[i]).0 == t.id; assert(p[i].0 < p[n - 1].0); } }
        let v = 0real + rv(t.coefficient);
        assert(rabs(v) > eps_real());
        assert(acc(ch, n) == prev.insert(t.id, v));
        assert(prev.insert(t.id, v).dom() =~= prev.dom().insert(t.id));
        assert forall|i: int| 0 <= i < n implies acc(ch, n).contains_key((#[trigger] p[i]).0) && acc(ch, n)[p[i].0] == rv(p[i].1) by {
            if i < n - 1 { assert(p[i].0 < p[n - 1].0); }
        }
    } else {
        assert(acc(ch, 0).dom() =~= Set::<u64>::empty());
    }
}
// two strictly increasing listings of the same map are the same listing (used to identify the result of Linear::new with its input)
pub proof fn lemma_sorted_listing_unique(t: Seq<v1::linear::Term>, p: Seq<(u64, F64)>, a: Map<u64, real>, n: int)
    requires lists_map(t, n, a), t.len() == n, p.len() == n, incr_kept(p),
        forall|i: int, j: int| 0 <= i < j < n ==> (#[trigger] t[i]).id < (#[trigger] t[j]).id,
        forall|i: int| 0 <= i < n ==> a.contains_key((#[trigger] p[i]).0) && a[p[i].0] == rv(p[i].1),
    ensures forall|i: int| 0 <= i < n ==> (#[trigger] t[i]).id == p[i].0 && t[i].coefficient@ == p[i].1@
    decreases n
{
    if n > 0 {
        // the largest key of the map is the last element of both listings
        let kt = t[n - 1].id; let kp = p[n - 1].0;
        assert(exists|i: int| 0 <= i < n && (#[trigger] t[i]).id == kp) by { lemma_listing_covers(t, n, a, kp); }
        assert(exists|i: int| 0 <= i < n && (#[trigger] p[i]).0 == kt) by { lemma_pairs_cover(p, a, n, kt); }
        let i1 = choose|i: int| 0 <= i < n && (#[trigger] t[i]).id == kp;
        let i2 = choose|i: int| 0 <= i < n && (#[trigger] p[i]).0 == kt;
        assert(kp <= kt) by { if i1 < n - 1 { assert(t[i1].id < t[n - 1].id); } }
        assert(kt <= kp) by { if i2 < n - 1 { assert(p[i2].0 < p[n - 1].0); } }
        let a2 = a.remove(kt);
        assert(a2.dom() =~= a.dom().remove(kt));
        assert forall|i: int| 0 <= i < n - 1 implies a2.contains_key((#[trigger] t[i]).id) && t[i].coefficient@ == XR::Fin(a2[t[i].id]) by { assert(t[i].id < t[n - 1].id); }
        assert forall|i: int| 0 <= i < n - 1 implies a2.contains_key((#[trigger] p[i]).0) && a2[p[i].0] == rv(p[i].1) by { assert(p[i].0 < p[n - 1].0); }
        lemma_sorted_listing_unique(t.subrange(0, n - 1), p.subrange(0, n - 1), a2, n - 1);
        assert forall|i: int| 0 <= i < n implies (#[trigger] t[i]).id == p[i].0 && t[i].coefficient@ == p[i].1@ by {
            if i < n - 1 { assert(t.subrange(0, n - 1)[i] == t[i]); assert(p.subrange(0, n - 1)[i] == p[i]); }
        }
    }
}
pub proof fn lemma_listing_covers(t: Seq<v1::linear::Term>, n: int, a: Map<u64, real>, k: u64)
    requires lists_map(t, n, a), a.contains_key(k)
    ensures exists|i: int| 0 <= i < n && (#[trigger] t[i]).id == k
    decreases n
{
    // n distinct keys of a map with n keys cover the map
    if n == 0 { assert(a.dom().len() == 0); assert(a.dom() =~= Set::<u64>::empty()); }
    else if t[n - 1].id != k {
        let a2 = a.remove(t[n - 1].id);
        assert(a2.dom() =~= a.dom().remove(t[n - 1].id));
        assert forall|i: int| 0 <= i < n - 1 implies a2.contains_key((#[trigger] t[i]).id) && t[i].coefficient@ == XR::Fin(a2[t[i].id]) by { assert(t[i].id != t[n - 1].id); }
        lemma_listing_covers(t, n - 1, a2, k);
    }
}
pub proof fn lemma_pairs_cover(p: Seq<(u64, F64)>, a: Map<u64, real>, n: int, k: u64)
    requires p.len() == n, a.dom().len() == n, incr_kept(p), forall|i: int| 0 <= i < n ==> a.contains_key((#[trigger] p[i]).0), a.contains_key(k)
    ensures exists|i: int| 0 <= i < n && (#[trigger] p[i]).0 == k
    decreases n
{
    if n == 0 { assert(a.dom() =~= Set::<u64>::empty()); }
    else if p[n - 1].0 != k {
        let a2 = a.remove(p[n - 1].0);
        assert(a2.dom() =~= a.dom().remove(p[n - 1].0));
        let p2 = p.subrange(0, n - 1);
        assert forall|i: int| 0 <= i < n - 1 implies a2.contains_key((#[trigger] p2[i]).0) by { assert(p2[i] == p[i]); assert(p[i].0 < p[n - 1].0); }
        assert(incr_kept(p2)) by { assert forall|i: int, j: int| 0 <= i < j < p2.len() implies (#[trigger] p2[i]).0 < (#[trigger] p2[j]).0 by { assert(p2[i] == p[i] && p2[j] == p[j]); }
            assert forall|i: int| 0 <= i < p2.len() implies (#[trigger] p2[i]).1@ is Fin && rabs(p2[i].1@->Fin_0) > eps_real() by { assert(p2[i] == p[i]); } }
        lemma_pairs_cover(p2, a2, n - 1, k);
        let i = choose|i: int| 0 <= i < n - 1 && (#[trigger] p2[i]).0 == k;
        assert(p[i].0 == k);
    }
}
