// ===== spec/c12_spec.rs : vocabulary for C12 =====
pub open spec fn first_dv(dvs: Seq<v1::DecisionVariable>, id: u64) -> int {
    choose|i: int| 0 <= i < dvs.len() && dvs[i].id == id && (forall|j: int| 0 <= j < i ==> (#[trigger] dvs[j]).id != id)
}
pub proof fn lemma_first_dv(dvs: Seq<v1::DecisionVariable>, id: u64, i: int)
    requires 0 <= i < dvs.len(), dvs[i].id == id, forall|j: int| 0 <= j < i ==> (#[trigger] dvs[j]).id != id
    ensures first_dv(dvs, id) == i
{
    let k = first_dv(dvs, id);
    assert(0 <= k < dvs.len() && dvs[k].id == id && (forall|j: int| 0 <= j < k ==> (#[trigger] dvs[j]).id != id));
    if k < i { assert(dvs[k].id != id); } else if i < k { assert(dvs[i].id != id); }
}
// integer kind (code 2), bound set, both ends finite, containing an integer
pub open spec fn logenc_ok(v: v1::DecisionVariable) -> bool {
    v.kind == 2 && v.bound is Some && v.bound->Some_0.lower@ is Fin && v.bound->Some_0.upper@ is Fin
        && rceil(v.bound->Some_0.lower@->Fin_0) <= rfloor(v.bound->Some_0.upper@->Fin_0)
}
pub open spec fn dv_ids(dvs: Seq<v1::DecisionVariable>, n: int) -> Set<u64> decreases n {
    if n <= 0 { Set::empty() } else { dv_ids(dvs, n - 1).insert(dvs[n - 1].id) }
}
pub broadcast proof fn lemma_dv_ids_mem_b(t: Seq<v1::DecisionVariable>, n: int, k: u64)
    requires 0 <= n <= t.len()
    ensures #[trigger] dv_ids(t, n).contains(k) <==> exists|i: int| 0 <= i < n && (#[trigger] t[i]).id == k
{ lemma_dv_ids_mem(t, n, k); }
pub proof fn lemma_dv_ids_mem(t: Seq<v1::DecisionVariable>, n: int, k: u64)
    requires 0 <= n <= t.len()
    ensures dv_ids(t, n).contains(k) <==> exists|i: int| 0 <= i < n && (#[trigger] t[i]).id == k
    decreases n
{
    if n > 0 {
        lemma_dv_ids_mem(t, n - 1, k);
        if dv_ids(t, n).contains(k) {
            if t[n - 1].id == k { assert(t[n - 1].id == k); } else {
                let i = choose|i: int| 0 <= i < n - 1 && (#[trigger] t[i]).id == k;
                assert(0 <= i < n && t[i].id == k);
            }
        }
        if exists|i: int| 0 <= i < n && (#[trigger] t[i]).id == k {
            let i = choose|i: int| 0 <= i < n && (#[trigger] t[i]).id == k;
            if i < n - 1 { assert(0 <= i < n - 1 && t[i].id == k); }
        }
    }
}
// idb = (largest defined id) + 1: fresh and above every defined id
pub open spec fn is_next_id(dvs: Seq<v1::DecisionVariable>, idb: u64) -> bool {
    (exists|i: int| 0 <= i < dvs.len() && (#[trigger] dvs[i]).id + 1 == idb) && (forall|i: int| 0 <= i < dvs.len() ==> (#[trigger] dvs[i]).id < idb)
}
pub open spec fn idb_ok(dvs: Seq<v1::DecisionVariable>, idb: u64) -> bool { is_next_id(dvs, idb) && idb <= 0xFFFF_FFFF_FFFF_0000 }
pub proof fn lemma_next_id(dvs: Seq<v1::DecisionVariable>, idb: u64)
    requires idb >= 1, dv_ids(dvs, dvs.len() as int).contains((idb - 1) as u64), forall|y: u64| dv_ids(dvs, dvs.len() as int).contains(y) ==> y <= idb - 1,
        forall|i: int| 0 <= i < dvs.len() ==> (#[trigger] dvs[i]).id < 0xFFFF_FFFF_FFFF_0000,
    ensures idb_ok(dvs, idb)
{
    lemma_dv_ids_mem(dvs, dvs.len() as int, (idb - 1) as u64);
    let w = choose|i: int| 0 <= i < dvs.len() && (#[trigger] dvs[i]).id == (idb - 1) as u64;
    assert(dvs[w].id + 1 == idb);
    assert forall|i: int| 0 <= i < dvs.len() implies (#[trigger] dvs[i]).id < idb by { lemma_dv_ids_mem(dvs, dvs.len() as int, dvs[i].id); }
}
// penalty methods: (largest defined id)+1, or 0 when no variable is defined
pub open spec fn next_or_zero(dvs: Seq<v1::DecisionVariable>, idb: u64) -> bool { if dvs.len() == 0 { idb == 0 } else { is_next_id(dvs, idb) } }
pub proof fn lemma_next_or_zero(dvs: Seq<v1::DecisionVariable>, idb: u64)
    requires dvs.len() > 0 ==> (idb >= 1 && dv_ids(dvs, dvs.len() as int).contains((idb - 1) as u64) && forall|y: u64| dv_ids(dvs, dvs.len() as int).contains(y) ==> y <= idb - 1),
        dvs.len() == 0 ==> idb == 0,
    ensures next_or_zero(dvs, idb)
{
    if dvs.len() > 0 {
        lemma_dv_ids_mem(dvs, dvs.len() as int, (idb - 1) as u64);
        let w = choose|i: int| 0 <= i < dvs.len() && (#[trigger] dvs[i]).id == (idb - 1) as u64;
        assert(dvs[w].id + 1 == idb);
        assert forall|i: int| 0 <= i < dvs.len() implies (#[trigger] dvs[i]).id < idb by { lemma_dv_ids_mem(dvs, dvs.len() as int, dvs[i].id); }
    }
}
