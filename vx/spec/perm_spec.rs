// ===== spec/perm_spec.rs : id lists up to order (counting permutations), the weight of a list is order-independent, sorted canonical form; keyed merges over canonical lists
// (hand-written, independent of /repo) =====
pub open spec fn cnt(s: Seq<u64>, n: int, k: u64) -> nat decreases n { if n <= 0 { 0 } else { cnt(s, n - 1, k) + (if s[n - 1] == k { 1nat } else { 0nat }) } }
pub open spec fn perm(a: Seq<u64>, b: Seq<u64>) -> bool { a.len() == b.len() && forall|k: u64| cnt(a, a.len() as int, k) == cnt(b, b.len() as int, k) }
pub open spec fn sorted_seq(s: Seq<u64>) -> bool { forall|i: int, j: int| 0 <= i <= j < s.len() ==> s[i] <= s[j] }
pub proof fn lemma_cnt_prefix(a: Seq<u64>, b: Seq<u64>, n: int, k: u64)
    requires 0 <= n <= a.len(), n <= b.len(), forall|i: int| 0 <= i < n ==> a[i] == b[i]
    ensures cnt(a, n, k) == cnt(b, n, k)
    decreases n
{ if n > 0 { lemma_cnt_prefix(a, b, n - 1, k); } }
pub proof fn lemma_cnt_index(s: Seq<u64>, n: int, k: u64) -> (i: int)
    requires 0 <= n <= s.len(), cnt(s, n, k) > 0
    ensures 0 <= i < n, s[i] == k
    decreases n
{ if s[n - 1] == k { n - 1 } else { lemma_cnt_index(s, n - 1, k) } }
pub proof fn lemma_cnt_has(s: Seq<u64>, n: int, i: int)
    requires 0 <= i < n <= s.len()
    ensures cnt(s, n, s[i]) > 0
    decreases n
{ if i < n - 1 { lemma_cnt_has(s, n - 1, i); } }
pub proof fn lemma_cnt_remove(s: Seq<u64>, i: int, k: u64)
    requires 0 <= i < s.len()
    ensures cnt(s.remove(i), s.len() - 1, k) + (if s[i] == k { 1nat } else { 0nat }) == cnt(s, s.len() as int, k)
    decreases s.len()
{
    let n = s.len() as int; let r = s.remove(i);
    if i == n - 1 { lemma_cnt_prefix(r, s, n - 1, k); } else {
        let s2 = s.drop_last(); let r2 = s2.remove(i);
        lemma_cnt_remove(s2, i, k);
        assert(r[n - 2] == s[n - 1]);
        lemma_cnt_prefix(r, r2, n - 2, k);
        lemma_cnt_prefix(s, s2, n - 1, k);
        assert(s2[i] == s[i]);
    }
}
pub proof fn lemma_cnt_concat(a: Seq<u64>, b: Seq<u64>, n: int, k: u64)
    requires 0 <= n <= b.len()
    ensures cnt(a + b, a.len() + n, k) == cnt(a, a.len() as int, k) + cnt(b, n, k)
    decreases n
{
    if n > 0 { lemma_cnt_concat(a, b, n - 1, k); assert((a + b)[a.len() + n - 1] == b[n - 1]); }
    else { lemma_cnt_prefix(a + b, a, a.len() as int, k); }
}
pub proof fn lemma_perm_refl(a: Seq<u64>) ensures perm(a, a) {}
pub proof fn lemma_perm_concat(a: Seq<u64>, a2: Seq<u64>, b: Seq<u64>, b2: Seq<u64>)
    requires perm(a, a2), perm(b, b2)
    ensures perm(a + b, a2 + b2)
{
    assert forall|k: u64| cnt(a + b, (a + b).len() as int, k) == cnt(a2 + b2, (a2 + b2).len() as int, k) by {
        lemma_cnt_concat(a, b, b.len() as int, k); lemma_cnt_concat(a2, b2, b2.len() as int, k); }
}
pub proof fn lemma_perm_mem(a: Seq<u64>, b: Seq<u64>, k: u64)
    requires perm(a, b), a.contains(k)
    ensures b.contains(k)
{
    let i = choose|i: int| 0 <= i < a.len() && a[i] == k;
    lemma_cnt_has(a, a.len() as int, i);
    let j = lemma_cnt_index(b, b.len() as int, k);
}
// the weight of an id list does not depend on the order
pub proof fn lemma_mono_prefix(c: real, a: Seq<u64>, b: Seq<u64>, n: int, m: Map<u64, F64>)
    requires 0 <= n <= a.len(), n <= b.len(), forall|i: int| 0 <= i < n ==> a[i] == b[i]
    ensures mono_val(c, a, n, m) == mono_val(c, b, n, m)
    decreases n
{ if n > 0 { lemma_mono_prefix(c, a, b, n - 1, m); } }
pub proof fn lemma_mono_remove(c: real, s: Seq<u64>, i: int, m: Map<u64, F64>)
    requires 0 <= i < s.len()
    ensures mono_val(c, s, s.len() as int, m) == mono_val(c, s.remove(i), s.len() - 1, m) * sval(m, s[i])
    decreases s.len()
{
    let n = s.len() as int; let r = s.remove(i);
    if i == n - 1 { lemma_mono_prefix(c, r, s, n - 1, m); } else {
        let s2 = s.drop_last(); let r2 = s2.remove(i);
        lemma_mono_remove(c, s2, i, m);
        assert(r[n - 2] == s[n - 1]);
        lemma_mono_prefix(c, r, r2, n - 2, m);
        lemma_mono_prefix(c, s, s2, n - 1, m);
        assert(s2[i] == s[i]);
        let p = mono_val(c, r2, n - 2, m); let x = sval(m, s[i]); let y = sval(m, s[n - 1]);
        assert((p * x) * y == (p * y) * x) by(nonlinear_arith);
    }
}
pub proof fn lemma_mono_perm(c: real, a: Seq<u64>, b: Seq<u64>, m: Map<u64, F64>)
    requires perm(a, b)
    ensures mono_val(c, a, a.len() as int, m) == mono_val(c, b, b.len() as int, m)
    decreases a.len()
{
    let n = a.len() as int;
    if n > 0 {
        let x = a[n - 1];
        assert(cnt(a, n, x) > 0);
        let i = lemma_cnt_index(b, n, x);
        let a2 = a.drop_last(); let b2 = b.remove(i);
        assert(perm(a2, b2)) by {
            assert forall|k: u64| cnt(a2, a2.len() as int, k) == cnt(b2, b2.len() as int, k) by { lemma_cnt_remove(b, i, k); lemma_cnt_prefix(a, a2, n - 1, k); } }
        lemma_mono_perm(c, a2, b2, m);
        lemma_mono_remove(c, b, i, m);
        lemma_mono_prefix(c, a, a2, n - 1, m);
    }
}
pub proof fn lemma_mono_concat(a: Seq<u64>, b: Seq<u64>, n: int, m: Map<u64, F64>)
    requires 0 <= n <= b.len()
    ensures mono_val(1real, a + b, a.len() + n, m) == mono_val(1real, a, a.len() as int, m) * mono_val(1real, b, n, m)
    decreases n
{
    if n > 0 {
        lemma_mono_concat(a, b, n - 1, m);
        assert((a + b)[a.len() + n - 1] == b[n - 1]);
        let p = mono_val(1real, a, a.len() as int, m); let q = mono_val(1real, b, n - 1, m); let x = sval(m, b[n - 1]);
        assert((p * q) * x == p * (q * x)) by(nonlinear_arith);
    } else { lemma_mono_prefix(1real, a + b, a, a.len() as int, m); assert(mono_val(1real, a, a.len() as int, m) * 1real == mono_val(1real, a, a.len() as int, m)) by(nonlinear_arith); }
}
// two sorted lists with the same counts are equal: the sorted form of a list is unique
pub proof fn lemma_sorted_perm_eq(a: Seq<u64>, b: Seq<u64>)
    requires perm(a, b), sorted_seq(a), sorted_seq(b)
    ensures a =~= b
    decreases a.len()
{
    let n = a.len() as int;
    if n > 0 {
        let x = a[n - 1]; let y = b[n - 1];
        lemma_cnt_has(a, n, n - 1); let i = lemma_cnt_index(b, n, x); assert(x <= y);
        lemma_cnt_has(b, n, n - 1); let j = lemma_cnt_index(a, n, y); assert(y <= x);
        let a2 = a.drop_last(); let b2 = b.drop_last();
        assert(x == y);
        assert(perm(a2, b2)) by { assert forall|k: u64| cnt(a2, a2.len() as int, k) == cnt(b2, b2.len() as int, k) by { lemma_cnt_prefix(a, a2, n - 1, k); lemma_cnt_prefix(b, b2, n - 1, k);
            assert(cnt(a, n, k) == cnt(a, n - 1, k) + (if a[n - 1] == k { 1nat } else { 0nat })); assert(cnt(b, n, k) == cnt(b, n - 1, k) + (if b[n - 1] == k { 1nat } else { 0nat })); } }
        lemma_sorted_perm_eq(a2, b2);
        assert forall|q: int| 0 <= q < n implies a[q] == b[q] by { if q < n - 1 { assert(a2[q] == b2[q]); } }
    }
}
// THE sorted form of a list (SortedIds::new / SortedIds + SortedIds compute it)
pub open spec fn skey(s: Seq<u64>) -> Seq<u64> { choose|k: Seq<u64>| sorted_seq(k) && perm(k, s) }
pub proof fn lemma_skey(w: Seq<u64>, s: Seq<u64>)
    requires sorted_seq(w), perm(w, s)
    ensures skey(s) == w
{
    let k = skey(s);
    assert(sorted_seq(k) && perm(k, s));
    assert(perm(k, w));
    lemma_sorted_perm_eq(k, w);
}
// generic keyed helpers: add a value under a key; the entries outside the epsilon band
pub open spec fn kbump<K>(g: Map<K, real>, k: K, c: real) -> Map<K, real> { g.insert(k, (if g.contains_key(k) { g[k] } else { 0real }) + c) }
pub open spec fn kdrop<K>(g: Map<K, real>) -> Map<K, real> { g.restrict(g.dom().filter(|k: K| rabs(g[k]) > eps_real())) }
pub proof fn lemma_ksum_kbump<K>(g: Map<K, real>, w: spec_fn(K) -> real, k: K, c: real)
    ensures ksum(kbump(g, k, c), w) == ksum(g, w) + c * w(k)
{
    lemma_ksum_insert(g, w, k, (if g.contains_key(k) { g[k] } else { 0real }) + c);
    if g.contains_key(k) { assert((g[k] + c) * w(k) == g[k] * w(k) + c * w(k)) by(nonlinear_arith); }
}
// an epsilon-dropping collect of a listing with one entry per key keeps exactly the entries outside the band
pub proof fn lemma_kacc_listing<K>(l: Seq<(K, F64)>, n: int, g: Map<K, real>)
    requires klists(l, n, g)
    ensures kacc(l, n, true, Map::empty()) =~= kdrop(g)
    decreases n
{
    if n == 0 { assert(g.dom().len() == 0); assert(g.dom() =~= Set::<K>::empty()); } else {
        let k = l[n - 1].0; let g2 = g.remove(k);
        assert(g2.dom() =~= g.dom().remove(k));
        assert forall|i: int| 0 <= i < n - 1 implies g2.contains_key((#[trigger] l[i]).0) && l[i].1@ == XR::Fin(g2[l[i].0]) by { assert(l[i].0 != l[n - 1].0); }
        assert(klists(l, n - 1, g2));
        lemma_kacc_listing(l, n - 1, g2);
        assert(!kdrop(g2).contains_key(k));
        assert(rv(l[n - 1].1) == g[k]);
    }
}
// Polynomial * Polynomial: the exact product, accumulated under canonical keys in the order of the two loops (nothing is dropped inside the loops)
pub open spec fn prow(g: Map<Seq<u64>, real>, a: v1::Monomial, b: Seq<v1::Monomial>, j: int) -> Map<Seq<u64>, real> decreases j {
    if j <= 0 { g } else { kbump(prow(g, a, b, j - 1), skey(skey(b[j - 1].ids@) + skey(a.ids@)), rv(a.coefficient) * rv(b[j - 1].coefficient)) }
}
pub open spec fn pmat(a: Seq<v1::Monomial>, b: Seq<v1::Monomial>, i: int) -> Map<Seq<u64>, real> decreases i {
    if i <= 0 { Map::empty() } else { prow(pmat(a, b, i - 1), a[i - 1], b, b.len() as int) }
}
// the term list yielded by the iterator of &Polynomial: the monomials with their ids in sorted order
pub open spec fn tlist_ok(l: Seq<(SortedIds, F64)>, t: Seq<v1::Monomial>) -> bool {
    l.len() == t.len() && forall|i: int| 0 <= i < t.len() ==> (#[trigger] l[i]).1 == t[i].coefficient && l[i].0.0@ == skey(t[i].ids@) && sorted_seq(l[i].0.0@) && perm(l[i].0.0@, t[i].ids@)
}
pub open spec fn sitems(l: Seq<(SortedIds, F64)>) -> Seq<(Seq<u64>, F64)> { Seq::new(l.len(), |i: int| (l[i].0.0@, l[i].1)) }
pub proof fn lemma_tlist_sum(l: Seq<(SortedIds, F64)>, t: Seq<v1::Monomial>, n: int, m: Map<u64, F64>)
    requires tlist_ok(l, t), 0 <= n <= t.len()
    ensures kseq_sum(sitems(l), n, pw(m)) == poly_sum(t, n, m)
    decreases n
{
    if n > 0 {
        lemma_tlist_sum(l, t, n - 1, m);
        assert(sitems(l)[n - 1] == (l[n - 1].0.0@, l[n - 1].1));
        lemma_mono_perm(1real, l[n - 1].0.0@, t[n - 1].ids@, m);
        lemma_mono_unit(rv(t[n - 1].coefficient), t[n - 1].ids@, t[n - 1].ids.len() as int, m);
    }
}
