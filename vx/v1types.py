"""Mechanical extraction of the prost message types of rust/ommx/src/ommx.v1.rs into the Verus dialect.

What is kept: every struct/enum with its real field names and types (f64 -> F64, prost path aliases -> std names).
What is dropped: prost/serde attributes and derives, doc comments, the `impl Enum { as_str_name, from_str_name }` helpers,
explicit discriminants of C-like enums (all prost enums here are numbered 0..n in order, which is checked).
What is generated (trusted, T4): structural `Clone`, all-zero/empty `Default`, and the prost enum accessors
(`c.equality()`: code -> variant, unknown -> first variant; `set_*`; `Enum as i32`).
"""
import re
from vx import core


def _strip_attrs(s):
    # remove #[...] attributes (possibly multi-line, one level of nested parens/brackets)
    out = []
    i = 0
    n = len(s)
    while i < n:
        if s.startswith('#[', i):
            j = core.match_close(s, i + 1, '[', ']')
            i = j + 1
        else:
            out.append(s[i])
            i += 1
    return ''.join(out)


def _default_clause(fname, ty):
    ty = ty.strip()
    if re.match(r'^(u8|u16|u32|u64|usize|i8|i16|i32|i64|isize)$', ty):
        return 'r.%s == 0' % fname
    if ty == 'F64':
        return 'r.%s@ == XR::Fin(0real)' % fname
    if ty == 'bool':
        return '!r.%s' % fname
    if ty.startswith('Vec<'):
        return 'r.%s@.len() == 0' % fname
    if ty.startswith('Option<'):
        return 'r.%s is None' % fname
    if ty.startswith('HashMap<'):
        return 'r.%s@ =~= Map::empty()' % fname
    if ty == 'String':
        return None
    return None


def v1_module(rules):
    raw = open(core.SRC + '/ommx.v1.rs').read()
    # enumeration fields before comments/attrs are stripped: struct -> [(field, Enum)]
    s = core.strip_comments(raw)
    enum_fields = {}
    for m in re.finditer(r'#\[prost\(enumeration\s*=\s*"([\w:]+)"[^\]]*\]\s*pub\s+(\w+)\s*:\s*(i32|::prost::alloc::vec::Vec<i32>)', s):
        # owning struct: last `pub struct X {` before m.start()
        st = list(re.finditer(r'pub struct (\w+)\s*\{', s[:m.start()]))[-1].group(1)
        if m.group(3) == 'i32':
            enum_fields.setdefault(st, []).append((m.group(2), m.group(1)))
    # discriminants
    enums = {}
    for m in re.finditer(r'pub enum (\w+)\s*\{', s):
        i = s.index('{', m.start())
        j = core.match_close(s, i)
        body = _strip_attrs(s[i + 1:j])
        vs = re.findall(r'(\w+)\s*=\s*(-?\d+)\s*,', body)
        if vs:
            codes = [int(c) for _, c in vs]
            if codes != list(range(len(codes))):
                raise core.LostAnchor('prost enum %s is not numbered 0..n' % m.group(1))
            enums[m.group(1)] = [v for v, _ in vs]
    s = _strip_attrs(s)
    for a, b in (('::prost::alloc::vec::Vec', 'Vec'), ('::core::option::Option', 'Option'), ('::std::collections::HashMap', 'HashMap'),
                 ('::prost::alloc::string::String', 'String'), ('::prost::alloc::boxed::Box', 'Box')):
        s = s.replace(a, b)
    # drop impl blocks
    while True:
        m = re.search(r'\n\s*impl \w+ \{', s)
        if not m:
            break
        i = s.index('{', m.start())
        j = core.match_close(s, i)
        s = s[:m.start()] + s[j + 1:]
    s = re.sub(r'\s*=\s*-?\d+\s*,', ',', s)  # R19
    n1 = len(re.findall(r'\bf64\b', s))
    rules.hit('R1', n1)
    s = re.sub(r'\bf64\b', 'F64', s)
    s = re.sub(r'\n\s*\n+', '\n', s)

    # generate Clone / Default per struct, Clone/Copy per enum
    out = []
    pos = 0
    item_rx = re.compile(r'pub (struct|enum) (\w+)\s*(\{|;)')
    res = []
    idx = 0
    while True:
        m = item_rx.search(s, idx)
        if not m:
            res.append(s[idx:])
            break
        kind, name = m.group(1), m.group(2)
        i = s.index('{', m.start())
        j = core.match_close(s, i)
        body = s[i + 1:j]
        res.append(s[idx:m.start()])
        gen = ''
        if kind == 'struct':
            fields = re.findall(r'pub\s+(\w+)\s*:\s*([^,]+?)\s*,\s*(?=pub|\Z)', body + ' ', re.S)
            fields = [(f, core.norm_ws(t)) for f, t in fields]
            clauses = [c for c in (_default_clause(f, t) for f, t in fields) if c]
            res.append(s[m.start():j + 1])
            gen += '\nimpl Clone for %s { #[verifier::external_body] fn clone(&self) -> (r: Self) ensures r == *self { unimplemented!() } }\n' % name
            gen += 'impl Default for %s { #[verifier::external_body] fn default() -> (r: Self) %s { unimplemented!() } }\n' % (
                name, ('ensures ' + ', '.join(clauses)) if clauses else '')
            for f, en in enum_fields.get(name, []):
                enp = en if '::' in en else en
                ename = en.split('::')[-1]
                conv = '%s_from_i32' % ename.lower()
                gen += ('impl %s { #[verifier::external_body] pub fn %s(&self) -> (r: %s) ensures r == %s(self.%s) { unimplemented!() }\n'
                        '  #[verifier::external_body] pub fn set_%s(&mut self, value: %s) ensures *final(self) == (%s { %s: %s_to_i32(value), ..*old(self) }) { unimplemented!() } }\n'
                        % (name, f, enp, conv, f, f, enp, name, f, ename.lower()))
        else:
            if name in enums:
                res.append('#[derive(Clone, Copy, PartialEq, Eq, Debug)]\n' + s[m.start():j + 1])
                gen += '\nunsafe impl Structural for %s {}\n' % name
            else:
                res.append(s[m.start():j + 1])
                gen += '\nimpl Clone for %s { #[verifier::external_body] fn clone(&self) -> (r: Self) ensures r == *self { unimplemented!() } }\n' % name
        res.append(gen)
        idx = j + 1
    s = ''.join(res)
    s = re.sub(r'(pub mod \w+ \{)', r'\1\n    use super::*;', s)
    # enum code conversions (spec + exec), placed at top level of v1 with full paths resolved by name search
    conv = []
    for en, vs in enums.items():
        # path: nested enums live in a module named after the struct in snake case
        path = 'v1::' + en
        mm = re.search(r'pub mod (\w+) \{(?:(?!pub mod ).)*?pub enum %s\b' % en, s, re.S)
        if mm and re.search(r'pub enum %s\b' % en, s[mm.start():core.match_close(s, s.index('{', mm.start())) + 1]):
            path = 'v1::' + mm.group(1) + '::' + en
        lo = en.lower()
        arms_from = ' else '.join('if c == %d { %s::%s }' % (k, path, v) for k, v in enumerate(vs) if k > 0)
        conv.append('pub open spec fn %s_from_i32(c: i32) -> %s { %s else { %s::%s } }\n' % (lo, path, arms_from, path, vs[0]))
        conv.append('pub open spec fn %s_to_i32(e: %s) -> i32 { match e { %s } }\n' % (
            lo, path, ', '.join('%s::%s => %di32' % (path, v, k) for k, v in enumerate(vs))))
        conv.append('#[verifier::external_body] pub fn %s_as_i32(e: %s) -> (r: i32) ensures r == %s_to_i32(e) { unimplemented!() }\n' % (lo, path, lo))
        conv.append('#[verifier::external_body] pub fn %s_try_from_i32(c: i32) -> (r: Result<%s, VErr>) ensures 0 <= c < %d ==> r == Ok::<%s, VErr>(%s_from_i32(c)), !(0 <= c < %d) ==> r is Err { unimplemented!() }\n'
                    % (lo, path, len(vs), path, lo, len(vs)))
    return 'pub mod v1 {\nuse super::*;\n' + s + '\n}\n' + ''.join(conv), enums
