#!/usr/bin/env python3
"""bin/check driver: ./bin/check <Cxx> [--tier quick|thorough] [--replay file]

exit 0 = every obligation generated from /repo's current source was discharged
exit 1 = VIOLATION line printed (an obligation on a unit extracted from /repo failed)
exit 2 = UNDECIDED / BROKEN-CHECK (lost anchor, tool limit, rlimit, failing hand-written lemma)
"""
import importlib
import json
import os
import re
import sys
import time

sys.path.insert(0, os.path.dirname(os.path.dirname(os.path.abspath(__file__))))
from vx import core  # noqa: E402
from vx.core import LostAnchor  # noqa: E402

VERIF = core.VERIF
OUT = core.OUT


def load_known():
    p = os.path.join(VERIF, 'known_findings.txt')
    known = []
    if os.path.exists(p):
        for ln in open(p):
            ln = ln.strip()
            if not ln or ln.startswith('#'):
                continue
            m = re.match(r'known:\s+property=(\S+)\s+unit=(\S+)\s+clause=(.*?)\s+::\s+(.*)$', ln)
            if m:
                known.append(dict(prop=m.group(1), unit=m.group(2), clause=m.group(3), what=m.group(4)))
    return known


def write_evidence(prop, ev):
    evd = os.environ.get('VERIF_EVIDENCE') or os.path.join(VERIF, 'evidence')   # VERIF_EVIDENCE: scratch evidence directory (survey tools)
    os.makedirs(evd, exist_ok=True)
    with open(os.path.join(evd, prop + '.json'), 'w') as f:
        json.dump(ev, f, indent=1, sort_keys=True)


def run_bounded(prop, tier='quick'):
    """Bounded stand-in: executable form of the contracts run on the REAL compiled code (rx/src/bounded.rs) over a fixed finite family.
    Labelled bounded everywhere; never counted as proof."""
    import subprocess
    cmd = [os.path.join(VERIF, 'bin', 'rx'), 'bounded', prop]
    env = dict(os.environ, VERIF_REPO=core.REPO)
    env.setdefault('RX_BUDGET', '50000' if tier == 'thorough' else '200')
    t = time.time()
    try:
        p = subprocess.run(cmd, capture_output=True, text=True, env=env, timeout=1800)
    except Exception as ex:
        return dict(status='error', detail=str(ex))
    out = p.stdout
    m = re.search(r'^BOUNDED property=\S+ cases=(\d+) distinct=(\d+) (\w+)', out, re.M)
    r = dict(cmd='./bin/rx bounded %s' % prop, wall_s=round(time.time() - t, 2), samples=re.findall(r'^SAMPLE (.*)$', out, re.M))
    if p.returncode == 4:
        r['status'] = 'none'
    elif not m or p.returncode not in (0, 1):
        r['status'] = 'error'
        r['detail'] = (out + p.stderr)[-2000:]
    else:
        r['cases'] = int(m.group(1))
        r['distinct'] = int(m.group(2))
        fi = re.search(r'^FAILING-INPUT (.*)$', out, re.M)
        r['status'] = 'fail' if (p.returncode == 1 and fi) else ('pass' if p.returncode == 0 else 'error')
        if fi:
            r['failing_input'] = fi.group(1)
    return r


# families of OTHER properties whose units a property's argument composes with (the same relation as `composes_with`, for the bounded route): a case that one family has and
# its neighbour lacks was the cause of every miss of seed round 13.  After a property's own family passes, the neighbour families run too; a failing input there is a failing
# input of a unit this property relies on.
NEIGHBOUR_FAMILIES = {'C10': ['C03'], 'C04': ['C05', 'C01'], 'C14': ['C05'], 'C15': ['C02'], 'C09': ['C02'], 'C13': ['C02', 'C16'], 'C03': ['C01']}


def run_bounded_all(prop, tier='quick'):
    b = run_bounded(prop, tier)
    if b.get('status') != 'pass' or os.environ.get('VERIF_AS_DEPENDENCY'):
        return b
    b['neighbour_families'] = []
    for nb in NEIGHBOUR_FAMILIES.get(prop, []):
        r = run_bounded(nb, tier)
        b['neighbour_families'].append(dict(family=nb, status=r.get('status'), cases=r.get('cases')))
        if r.get('status') == 'fail':
            b['status'] = 'fail'
            b['failing_input'] = '(family of %s, whose units the argument of %s composes with) %s' % (nb, prop, r.get('failing_input', ''))
            b['cmd'] = r['cmd']
            break
    return b


BOUNDED_RULE = ('part A: deterministic hand-built family of inputs in rx/src/bounded*.rs; part B: RX_BUDGET (quick 200 / thorough 50000) structured inputs from a PRNG seeded by VERIF_SEED (small dyadic coefficients/values so every expected number is exact in f64; '
                'every representation shape named by the property); each case runs the REAL compiled ommx code and compares with an independent '
                'executable form of the contract; distinct = distinct (input) tuples')


def clause_at(text_lines, line):
    if 1 <= line <= len(text_lines):
        return text_lines[line - 1].strip()
    return ''


def main():
    args = sys.argv[1:]
    if not args:
        print('usage: check <Cxx> [--tier quick|thorough] [--replay file]')
        return 2
    prop = args[0]
    tier = os.environ.get('VERIF_TIER', 'quick')
    replay = None
    i = 1
    while i < len(args):
        if args[i] == '--tier':
            tier = args[i + 1]
            i += 2
        elif args[i] == '--replay':
            replay = args[i + 1]
            i += 2
        else:
            i += 1
    if tier not in ('quick', 'thorough'):
        tier = 'quick'
    seed = int(os.environ.get('VERIF_SEED', '0') or 0)
    t0 = time.time()
    os.makedirs(OUT, exist_ok=True)
    os.makedirs(os.path.join(OUT, 'replay'), exist_ok=True)

    if replay:
        return do_replay(prop, replay)

    mod = importlib.import_module('vx.props.' + prop)
    ev = dict(property_id=prop, tier=tier, seed=seed, level='proof', coverage={}, assumptions=[], wall_s=0.0, violations=0)

    def undecided(reason, detail=''):
        print('UNDECIDED property=%s reason=%s' % (prop, reason))
        if detail:
            print(detail[:6000])
        if reason.split(':')[0] in ('lost-anchor', 'tool-limit', 'rlimit', 'tool-failure', 'unstable-proof') and not os.environ.get('VERIF_NO_BOUNDED'):
            # the code left the verifier's dialect (or budget): the deductive route gives no verdict on this tree.
            # Fall back to the bounded stand-in on the real compiled code - labelled bounded, never counted as proved.
            b = run_bounded_all(prop, tier)
            if b['status'] in ('pass', 'fail'):
                ev['level'] = 'exploration'
                ev['coverage'] = dict(evaluations=b['cases'], distinct_nontrivial=b['distinct'], rule=BOUNDED_RULE, samples=b['samples'] or ['(none recorded)'],
                                      exhaustive=False, checker_cmd=b['cmd'], bounded=True,
                                      explanation='BOUNDED STAND-IN ONLY. The deductive route was UNDECIDED on this tree (%s): the extracted code no longer matches the '
                                                  'contract sidecar or exceeds the verifier. Nothing is proved by this run; the finite family of rx/src/bounded.rs was run on the real code.' % reason,
                                      deductive_route=dict(verdict='undecided', reason=reason, detail=detail[:2000]))
                ev['assumptions'] = ['bounded: only the finite input family was explored']
                ev['violations'] = 1 if b['status'] == 'fail' else 0
                ev['wall_s'] = round(time.time() - t0, 2)
                write_evidence(prop, ev)
                if b['status'] == 'fail':
                    rp = os.path.join(OUT, 'replay', '%s-bounded.json' % prop)
                    with open(rp, 'w') as f:
                        json.dump(dict(property=prop, unit='bounded stand-in (deductive route undecided: %s)' % reason, failed_obligations=[],
                                       witness=dict(cmd=b['cmd'], failing_input=b['failing_input']), deductive_detail=detail[:4000],
                                       replay_cmd='./bin/check %s --replay %s' % (prop, rp)), f, indent=1)
                    print('bounded stand-in: failing input on the real code: %s' % b['failing_input'][:1500])
                    print('VIOLATION property=%s replay=%s' % (prop, rp))
                    return 1
                print('BOUNDED-STAND-IN property=%s cases=%d distinct=%d pass (deductive route undecided; bounded, NOT a proof)' % (prop, b['cases'], b['distinct']))
                return 0
        ev['level'] = 'other'
        ev['coverage'] = dict(explanation='UNDECIDED: %s. No verdict was produced by this run (neither pass nor violation).' % reason,
                              obligations=0, discharged=0)
        ev['wall_s'] = round(time.time() - t0, 2)
        write_evidence(prop, ev)
        return 2

    # 1. extract + assemble
    try:
        asm = core.Assembly(prop)
        meta = mod.build(asm, tier)
        text = asm.build()
    except LostAnchor as e:
        return undecided('lost-anchor', str(e))
    # 1b. the check must not silently shrink: every unit proved on the pinned tree (baseline/<prop>.json) must still be part of the assembly.  Units that are enumerated
    # mechanically (macro instances, operand families) disappear without a lost anchor when their code is rewritten by hand - that code is then under no contract.
    try:
        base_units = set(json.load(open(os.path.join(VERIF, 'baseline', prop + '.json'))).get('units', {}))
    except Exception:
        base_units = set()
    gone = sorted(base_units - set(u.name for u in asm.units))
    if gone and not os.environ.get('VERIF_WRITE_BASELINE'):
        return undecided('lost-anchor', 'unit(s) of the proved baseline no longer found in the source: %s (the code that now does their work is under no contract)' % ', '.join(gone[:5]))
    path = os.path.join(OUT, prop + '.rs')
    with open(path, 'w') as f:
        f.write(text)
    tlines = text.split('\n')

    # 2. trusted-base scan (mechanical)
    scan = {}
    for kw in ('external_body', 'assume_specification', 'assume(', 'admit(', 'axiom fn', 'external_type_specification', 'external_fn_specification'):
        scan[kw] = text.count(kw)
    if scan['assume('] or scan['admit(']:
        bad = [k for k in ('assume(', 'admit(') if scan[k]]
        # assume_specification contains "assume(" only if followed by paren; count precisely
        n_assume = len(re.findall(r'(?<![\w_])assume\(', text))
        n_admit = len(re.findall(r'(?<![\w_])admit\(', text))
        if n_assume or n_admit:
            return undecided('broken-check', 'assembled file contains assume()/admit(): %s' % bad)

    # 3. verify
    rlimit = meta.get('rlimit')
    res = core.run_verus(path, rlimit=rlimit, extra=meta.get('verus_args', ()))
    js = res['json']
    errors = res['errors']
    if 'panicked at' in res['stderr'] or 'Internal Verus Error' in res['stderr'] or js is None or 'verification-results' not in js:
        return undecided('tool-failure', res['stderr'][-3000:])

    # classify
    guard_hits = set()
    viol = []       # failed obligations on extracted units
    broken = []     # failed hand-written lemma
    tool = []       # front-end / unsupported / internal
    rl = []
    for e in errors:
        cls = core.classify(e['msg'])
        kind, name, fmeta, first = asm.locate(e['line'])
        if cls == 'obligation' and 'postcondition' in e['msg'] and e['spans']:
            # the failing EXIT decides which unit is responsible (trait-level ensures are shared by all impls)
            k2, n2, m2, f2 = asm.locate(max(e['spans']))
            if k2 == 'unit':
                kind, name, fmeta, first = k2, n2, m2, f2
        if cls == 'tool':
            tool.append((e, kind, name))
        elif cls == 'rlimit':
            rl.append((e, kind, name))
        elif kind == 'guard':
            guard_hits.add(name)
        elif kind == 'unit':
            viol.append((e, name, fmeta, first))
        else:
            # primary span in lib code: e.g. a callee precondition reported at the callee; look for a unit span
            unit_span = None
            for sp in e['spans']:
                k2, n2, m2, f2 = asm.locate(sp)
                if k2 == 'unit':
                    unit_span = (n2, m2, f2)
                    break
            if unit_span:
                viol.append((e, unit_span[0], unit_span[1], unit_span[2]))
            else:
                broken.append((e, kind, name))
    if tool:
        e, kind, name = tool[0]
        return undecided('tool-limit:%s:%s' % (kind, name), '\n\n'.join(t[0]['text'] for t in tool[:5]))
    if rl and not viol:
        if not rlimit or rlimit < 400:
            # one retry with a larger budget
            res2 = core.run_verus(path, rlimit=(rlimit or 10) * 4, extra=meta.get('verus_args', ()))
            if not any(core.classify(e['msg']) == 'rlimit' for e in res2['errors']):
                res = res2
                js = res['json']
                errors = res['errors']
                rl = []
                for e in errors:
                    cls = core.classify(e['msg'])
                    kind, name, fmeta, first = asm.locate(e['line'])
                    if kind == 'guard':
                        guard_hits.add(name)
                    elif cls == 'obligation' and kind == 'unit':
                        viol.append((e, name, fmeta, first))
                    elif cls == 'obligation':
                        broken.append((e, kind, name))
        if rl:
            e, kind, name = rl[0]
            return undecided('rlimit:%s:%s' % (kind, name), e['text'])
    if broken:
        e, kind, name = broken[0]
        return undecided('broken-check:lemma-failed:%s' % name, '\n\n'.join(b[0]['text'] for b in broken[:5]))

    # 4. vacuity guards: every guard function must FAIL
    guards = [name for a, b, kind, name, m in asm.map if kind == 'guard']
    n_guard_fns = 0
    guard_fail_lines = set(e['line'] for e in errors)
    for a, b, kind, name, m in asm.map:
        if kind != 'guard':
            continue
        # each `assert(false)` line in the guard must have produced an error
        for ln in range(a, b + 1):
            if 'assert(false)' in tlines[ln - 1]:
                n_guard_fns += 1
                if ln not in guard_fail_lines:
                    return undecided('broken-check:vacuity-guard-proved', 'guard at out/%s.rs:%d was PROVED: contradictory assumptions' % (prop, ln))
    if n_guard_fns == 0:
        return undecided('broken-check:no-vacuity-guards')

    # 5. counts
    fb = []
    if js:
        try:
            for mt in js['times-ms']['smt']['smt-run-module-times']:
                fb += mt.get('function-breakdown', [])
        except Exception:
            fb = []
    vr = (js or {}).get('verification-results', {})
    verified = vr.get('verified', 0)
    n_err_items = vr.get('errors', 0)
    # guard functions are expected failures; they are not obligations
    n_guard_items = len(set(ln for ln in guard_fail_lines if asm.locate(ln)[0] == 'guard'))
    obligations = verified + n_err_items - n_guard_items
    discharged = verified
    unit_names = [u.name for u in asm.units]
    min_items = meta.get('min_items', len(unit_names))
    if obligations < min_items:
        # fewer verification items than units: the verifier stopped early on the changed tree (e.g. a recursive rewrite without a termination measure) - undecided like any tool limit
        return undecided('tool-limit:too-few-obligations', '%d < %d' % (obligations, min_items))

    # 6. violations vs known findings
    known = [k for k in load_known() if k['prop'] == prop]
    new_viol = []
    known_hit = []
    for e, uname, fmeta, first in viol:
        # the failing clause: the line the primary/secondary span points to inside the unit header
        ctext = clause_at(tlines, e['line'])
        hit = None
        for k in known:
            if k['unit'] == re.sub(r'\s+', '_', uname) and k['clause'] in ctext:
                hit = k
                break
        rec = dict(unit=uname, obligation=e['msg'], clause=ctext[:600], out_line=e['line'],
                   repo_file=('rust/ommx/src/' + fmeta['file']) if fmeta else None,
                   repo_line=fmeta['line'] if fmeta else None, verifier_output=e['text'])
        if hit:
            known_hit.append((hit, rec))
        else:
            new_viol.append(rec)

    # 6b. stability guard.  The obligations of a unit are a function of (the unit's extracted text, the context: prelude + specs + extracted types + assumed contracts
    # + the headers of the other units).  If both are byte-identical to the baseline recorded when this check last passed on the pinned tree (baseline/<prop>.json,
    # committed, never written by a normal run), a failed obligation of that unit cannot be a change of the code: the same text was proved.  It is solver instability
    # (another function of the file changed, which perturbs Z3's search).  Such failures are retried with other solver seeds and, if they persist, reported as
    # UNDECIDED (unstable-proof) - never as a violation.
    import hashlib
    ctx_sha = hashlib.sha256(''.join(t for k, n, t, m in asm.parts if k != 'unit').encode()).hexdigest()[:16]
    hdr_sha = hashlib.sha256(''.join(u.header for u in asm.units).encode()).hexdigest()[:16]
    unit_sha = {}
    for k, n, t, m in asm.parts:
        if k == 'unit':
            unit_sha[n] = hashlib.sha256(t.encode()).hexdigest()[:16]
    base_path = os.path.join(VERIF, 'baseline', prop + '.json')
    base = None
    try:
        base = json.load(open(base_path))
    except Exception:
        base = None
    unstable = []
    retried = []
    if new_viol:
        # (a) a proof found under ANY solver seed is a proof: every unit with a failed obligation is re-checked with other seeds, and a unit that verifies completely
        #     under one of them is discharged (a genuine violation fails under every seed);
        # (b) what still fails in a unit whose text and context are identical to the proved baseline is solver instability, not a violation.
        still = set(r['unit'] for r in new_viol)
        first_failed = set(still)
        tried = []
        for sd in (7, 1234, 99):
            r2 = core.run_verus(path, rlimit=rlimit, extra=list(meta.get('verus_args', ())) + ['--smt-option', 'smt.random_seed=%d' % sd], timeout=max(180, 4 * res['wall']))
            if r2['json'] is None or 'verification-results' not in (r2['json'] or {}):
                continue
            tried.append(sd)
            failing = set()
            for e2 in r2['errors']:
                if core.classify(e2['msg']) in ('obligation', 'rlimit'):
                    for ln in [e2['line']] + list(e2['spans']):
                        k2, n2, m2, f2 = asm.locate(ln)
                        if k2 == 'unit':
                            failing.add(n2)
            still &= failing
            if not still:
                break
        retried = [dict(unit=u, seeds=tried, discharged_on_retry=(u not in still)) for u in sorted(first_failed)]
        new_viol = [r for r in new_viol if r['unit'] in still]
        same_ctx = bool(base) and base.get('context') == ctx_sha and base.get('headers') == hdr_sha
        same = [r for r in new_viol if same_ctx and base.get('units', {}).get(r['unit']) == unit_sha.get(r['unit'])]
        if same:
            unstable = [dict(unit=r['unit'], clause=r['clause'][:200], retried_seeds=tried, persisted=True) for r in same]
            new_viol = [r for r in new_viol if r not in same]
            if not new_viol:
                names = sorted(set(r['unit'] for r in same))
                print('unstable proof (unit text and context identical to the proved baseline): %s' % ', '.join(names))
                return undecided('unstable-proof:%s' % names[0], '\n'.join('%s :: %s' % (u['unit'], u['clause']) for u in unstable))

    trusted = meta.get('trusted_base', [])
    assumptions = meta.get('assumptions', [])
    samples = []
    for u in asm.units[:40]:
        samples.append(dict(unit=u.name, file=u.info.get('file'), line=u.info.get('line'),
                            contract=core.norm_ws(u.header)[:700]))
    smt_ms = 0
    try:
        smt_ms = js['times-ms']['smt']['smt-run']
    except Exception:
        pass
    slow = sorted(fb, key=lambda x: -x.get('time', 0))[:5]
    ev['coverage'] = dict(
        obligations=obligations, discharged=discharged + len([u for u in retried if u['discharged_on_retry']]),
        obligations_explained='Verus verification items (functions whose full set of proof obligations - postconditions, loop invariants, callee preconditions incl. unwrap/index/overflow, termination - is sent to Z3); vacuity guards excluded',
        checker_cmd=res['cmd'].replace(VERIF, '/verif'),
        backend='verus 0.2026.09.13 / Z3',
        trusted_base=trusted,
        units=[u.info for u in asm.units],
        functions_under_contract=unit_names,
        assumed_callee_contracts=asm.stubs,
        rules_applied=asm.rules.counts, auto_rules=list(core.AUTO_RULES),
        literals=asm.rules.lits,
        mechanical_scan=scan,
        vacuity_guards=dict(expected_to_fail=n_guard_fns, failed_as_expected=n_guard_fns),
        solver_time_ms=smt_ms, slowest=[dict(function=s['function'], ms=s['time'], rlimit=s.get('rlimit')) for s in slow],
        samples=samples,
        known_findings_hit=[dict(unit=k['unit'], what=k['what']) for k, r in known_hit],
        unstable_proofs=unstable, retried_with_other_seeds=retried,
        bounded_checks=meta.get('bounded_checks', []),
        not_covered=meta.get('not_covered', []),
        repo=core.REPO,
    )
    if known_hit:
        # items (functions) whose only failing obligations are listed known findings: reported separately, not as proved
        kf_units = set(r['unit'] for k, r in known_hit) - set(r['unit'] for r in new_viol)
        ev['coverage']['undischarged_known_finding_items'] = sorted(kf_units)
        ev['coverage']['obligations'] = obligations - len(kf_units)
    ev['assumptions'] = assumptions
    ev['violations'] = len(new_viol)
    ev['wall_s'] = round(time.time() - t0, 2)

    # optional Kani stage
    if hasattr(mod, 'post') and not new_viol:
        try:
            extra = mod.post(tier, ev)
            if extra:
                new_viol += extra
                ev['violations'] = len(new_viol)
        except core.LostAnchor as e:
            return undecided('lost-anchor', str(e))
    # bounded stand-in on the real compiled code: covers callees whose contracts are only assumed, and supplies a witness for a failed obligation
    bounded = None
    if not os.environ.get('VERIF_NO_BOUNDED'):
        bounded = run_bounded_all(prop, tier)
        if bounded['status'] == 'error' and not new_viol:
            return undecided('broken-check:bounded-stand-in-error', bounded.get('detail', ''))
        if bounded['status'] in ('pass', 'fail'):
            ev['coverage']['bounded_stand_in'] = dict(label='bounded - never counted as proved', cmd=bounded['cmd'], evaluations=bounded['cases'],
                                                      distinct=bounded['distinct'], rule=BOUNDED_RULE, samples=bounded['samples'], status=bounded['status'],
                                                      failing_input=bounded.get('failing_input'))
            if bounded['status'] == 'fail' and not new_viol:
                ev['violations'] = 1
    ev['wall_s'] = round(time.time() - t0, 2)
    write_evidence(prop, ev)
    if os.environ.get('VERIF_WRITE_BASELINE') and not new_viol and not unstable:
        # tools/final.sh on the clean pinned tree: record what was proved (text hashes), for the stability guard above
        os.makedirs(os.path.join(VERIF, 'baseline'), exist_ok=True)
        with open(base_path, 'w') as f:
            json.dump(dict(property=prop, context=ctx_sha, headers=hdr_sha, units=unit_sha), f, indent=1, sort_keys=True)

    for k, r in known_hit:
        print('KNOWN-FINDING: property=%s %s (unit %s)' % (prop, k['what'], k['unit']))
    if new_viol:
        by_unit = {}
        for r in new_viol:
            by_unit.setdefault(r['unit'], []).append(r)
        for n, (uname, rs) in enumerate(by_unit.items()):
            rp = os.path.join(OUT, 'replay', '%s-%s.json' % (prop, re.sub(r'[^\w]+', '_', uname).strip('_')))
            witness = None
            if bounded and bounded['status'] == 'fail':
                witness = dict(cmd=bounded['cmd'], failing_input=bounded['failing_input'], note='found by the bounded stand-in on the real compiled code')
            if not witness and hasattr(mod, 'witness'):
                try:
                    witness = mod.witness(uname, rs)
                except Exception as ex:  # a replay helper must never mask the violation
                    witness = None
            doc = dict(property=prop, unit=uname, repo_file=rs[0]['repo_file'], repo_line=rs[0]['repo_line'],
                       failed_obligations=[dict(obligation=r['obligation'], clause=r['clause'], verifier_output=r['verifier_output']) for r in rs],
                       witness=witness, replay_cmd='./bin/check %s --replay %s' % (prop, rp))
            with open(rp, 'w') as f:
                json.dump(doc, f, indent=1)
            for r in rs:
                print('failed obligation: unit=%s (%s:%s) :: %s :: %s' % (uname, r['repo_file'], r['repo_line'], r['obligation'], r['clause'][:240]))
            print('VIOLATION property=%s replay=%s%s' % (prop, rp, '' if witness else ' no-failing-input-found'))
        return 1
    if bounded and bounded['status'] == 'fail':
        # every deductive obligation was discharged, yet the real compiled code fails an executable contract: a callee whose contract is only ASSUMED
        # (or the ideal-arithmetic assumption) is broken on this input.
        rp = os.path.join(OUT, 'replay', '%s-bounded.json' % prop)
        with open(rp, 'w') as f:
            json.dump(dict(property=prop, unit='bounded stand-in (all deductive obligations discharged: the failure is in an assumed callee contract or assumption)',
                           failed_obligations=[], witness=dict(cmd=bounded['cmd'], failing_input=bounded['failing_input']),
                           replay_cmd='./bin/check %s --replay %s' % (prop, rp)), f, indent=1)
        print('bounded stand-in: failing input on the real code: %s' % bounded['failing_input'][:1500])
        print('VIOLATION property=%s replay=%s' % (prop, rp))
        return 1
    # 8. units of ANOTHER check that this property's argument composes with (meta 'composes_with': {check: [unit names]}): the claim made here uses their contracts
    # (e.g. C14: relax / restore only move constraints, THEREFORE values and feasibility are invariant - through the contract of Instance::evaluate, verified in C05).
    # Their obligations are re-checked on the current tree; one that was proved on the pinned tree and fails now is a failed obligation of this property's argument too.
    if not os.environ.get('VERIF_AS_DEPENDENCY'):
        import subprocess
        for dep, dep_units in (meta.get('composes_with') or {}).items():
            env = dict(os.environ, VERIF_NO_BOUNDED='1', VERIF_AS_DEPENDENCY=prop, VERIF_OUT=os.path.join(OUT, 'dep-' + dep), VERIF_EVIDENCE=os.path.join(OUT, 'dep-evidence'))
            env.pop('VERIF_WRITE_BASELINE', None)
            pr = subprocess.run([sys.executable, os.path.abspath(__file__), dep], capture_output=True, text=True, env=env)
            ev.setdefault('coverage', {}).setdefault('composed_with', []).append(dict(check=dep, units=('every unit' if dep_units == '*' else list(dep_units)), exit_code=pr.returncode))
            if pr.returncode != 1:
                continue          # held, or undecided there: this property's own verdict stands
            lines = pr.stdout.splitlines()
            fo = [l for l in lines if l.startswith('failed obligation:') and (dep_units == '*' or any(('unit=%s (' % u) in l for u in dep_units))]
            if not fo:
                continue
            rp = os.path.join(OUT, 'replay', '%s-composed-%s.json' % (prop, dep))
            with open(rp, 'w') as f:
                json.dump(dict(property=prop, unit='units of check %s that the argument of %s composes with' % (dep, prop), failed_obligations=[dict(obligation=l, clause='', verifier_output='') for l in fo],
                               witness=None, replay_cmd='./bin/check %s' % dep, verifier_stdout=pr.stdout[-4000:]), f, indent=1)
            write_evidence(prop, ev)
            for l in fo:
                print(l.replace('failed obligation:', 'failed obligation (unit of %s, composed with):' % dep, 1)[:400])
            print('VIOLATION property=%s replay=%s no-failing-input-found' % (prop, rp))
            return 1
        if meta.get('composes_with'):
            write_evidence(prop, ev)
    print('OK property=%s tier=%s units=%d obligations=%d discharged=%d guards=%d%s wall=%.1fs' %
          (prop, tier, len(unit_names), obligations, discharged, n_guard_fns,
           (' bounded-stand-in=%d/%d' % (bounded['distinct'], bounded['cases'])) if bounded and bounded['status'] == 'pass' else '', time.time() - t0))
    return 0


def do_replay(prop, path):
    r = json.load(open(path))
    print('replay of %s: unit=%s' % (path, r.get('unit')))
    for fo in r.get('failed_obligations', []):
        print('  failed obligation: %s :: %s' % (fo['obligation'], fo['clause']))
    print('repo location: %s:%s' % (r.get('repo_file'), r.get('repo_line')))
    if r.get('witness'):
        print('witness: %s' % json.dumps(r['witness']))
        cmd = r['witness'].get('cmd')
        if cmd:
            import subprocess
            p = subprocess.run(cmd, shell=True, cwd=VERIF)
            return 1 if p.returncode != 0 else 0
    # no concrete input: re-run the verification and report whether the same obligation still fails
    os.environ.pop('VERIF_TIER', None)
    import subprocess
    p = subprocess.run([sys.executable, os.path.abspath(__file__), prop], capture_output=True, text=True)
    print(p.stdout[-3000:])
    return p.returncode


if __name__ == '__main__':
    sys.exit(main())
