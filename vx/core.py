#!/usr/bin/env python3
"""Engine V core: mechanical extraction of functions from /repo, dialect rules,
assembly of a single Verus file, verifier invocation and diagnosis.

Nothing in here is specific to one property; properties live in vx/props/Cxx.py.
"""
import hashlib
import json
import os
import re
import subprocess
import sys
import time

VERIF = os.path.dirname(os.path.dirname(os.path.abspath(__file__)))
REPO = os.environ.get('VERIF_REPO', '/repo')
SRC = os.path.join(REPO, 'rust/ommx/src')
OUT = os.environ.get('VERIF_OUT') or os.path.join(VERIF, 'out')   # VERIF_OUT: scratch output directory (tools/seed_deductive.sh)


class LostAnchor(Exception):
    """The text the contract was written for is not there any more -> UNDECIDED (exit 2)."""


# --------------------------------------------------------------------------
# source handling
# --------------------------------------------------------------------------

def strip_comments(s):
    """Remove // and /* */ comments outside string/char literals. Newlines are kept, so
    line numbers of the result equal line numbers of the source."""
    out = []
    i = 0
    n = len(s)
    while i < n:
        c = s[i]
        if c == '"':
            j = i + 1
            while j < n and s[j] != '"':
                if s[j] == '\\':
                    j += 1
                j += 1
            out.append(s[i:j + 1])
            i = j + 1
        elif c == 'r' and re.match(r'r#*"', s[i:i + 8]) and (i == 0 or not (s[i - 1].isalnum() or s[i - 1] == '_')):
            m = re.match(r'r(#*)"', s[i:i + 8])
            close = '"' + m.group(1)
            j = s.find(close, i + len(m.group(0)))
            if j < 0:
                j = n
            out.append(s[i:j + len(close)])
            i = j + len(close)
        elif s.startswith('//', i):
            j = s.find('\n', i)
            if j < 0:
                j = n
            i = j
        elif s.startswith('/*', i):
            j = s.find('*/', i)
            j = n if j < 0 else j + 2
            out.append('\n' * s.count('\n', i, j))
            i = j
        elif c == "'" and i + 2 < n and (s[i + 2] == "'" or (s[i + 1] == '\\' and i + 3 < n and s[i + 3] == "'")):
            j = i + 3 if s[i + 2] == "'" else i + 4
            out.append(s[i:j])
            i = j
        else:
            out.append(c)
            i += 1
    return ''.join(out)


def match_close(s, i, open_ch='{', close_ch='}'):
    """index of the bracket closing the one at s[i]; string literals are skipped."""
    assert s[i] == open_ch, (s[i:i + 20], open_ch)
    d = 0
    j = i
    n = len(s)
    while j < n:
        c = s[j]
        if c == '"':
            j += 1
            while j < n and s[j] != '"':
                if s[j] == '\\':
                    j += 1
                j += 1
        elif c == "'" and j + 2 < n and (s[j + 2] == "'" or (s[j + 1] == '\\' and j + 3 < n and s[j + 3] == "'")):
            j = j + 2 if s[j + 2] == "'" else j + 3
        elif c == open_ch:
            d += 1
        elif c == close_ch:
            d -= 1
            if d == 0:
                return j
        j += 1
    raise LostAnchor('unbalanced %s' % open_ch)


_SRC_CACHE = {}


def load(file):
    """comment-stripped text of a repo source file (path relative to rust/ommx/src)"""
    if file not in _SRC_CACHE:
        p = os.path.join(SRC, file)
        if not os.path.exists(p):
            raise LostAnchor('file missing: %s' % file)
        _SRC_CACHE[file] = strip_comments(open(p).read())
    return _SRC_CACHE[file]


def find_block(s, rx, lo=0, hi=None, what=''):
    """Unique match of rx in s[lo:hi] followed by a {...} block.
    returns (match_start, open_brace, close_brace)"""
    ms = list(re.compile(rx).finditer(s, lo, len(s) if hi is None else hi))
    if len(ms) != 1:
        raise LostAnchor('anchor %r matched %d times %s' % (rx, len(ms), what))
    m = ms[0]
    k = m.end() - 1
    if s[k] == '<':            # generic parameter list of a fn
        k = match_close(s, k, '<', '>') + 1
        while s[k] in ' \n\t':
            k += 1
    if s[k] == '(':            # fn parameter list (may contain struct patterns with braces)
        k = match_close(s, k, '(', ')')
    i = s.index('{', k)
    j = match_close(s, i)
    return m.start(), i, j


def line_of(s, idx):
    return s.count('\n', 0, idx) + 1


def norm_ws(t):
    return re.sub(r'\s+', ' ', t).strip()


def get_fn(file, impl_rx, fn_rx):
    """returns dict(sig, body, line) for the function; body includes the outer braces."""
    s = load(file)
    lo, hi = 0, None
    if impl_rx:
        _, lo, hi = find_block(s, impl_rx, what='(impl in %s)' % file)
    a, i, j = find_block(s, fn_rx, lo, hi, what='(fn in %s)' % file)
    return dict(sig=norm_ws(s[a:i]), body=s[i:j + 1], line=line_of(s, a), body_line=line_of(s, i), file=file,
                src_sha=hashlib.sha256(s[a:j + 1].encode()).hexdigest()[:16])


def get_item(file, rx):
    """a struct/enum/impl item: text from match start to closing brace."""
    s = load(file)
    a, i, j = find_block(s, rx, what='(item in %s)' % file)
    return dict(text=s[a:j + 1], line=line_of(s, a), file=file)


# --------------------------------------------------------------------------
# dialect rules (DESIGN 3.2).  Every application is counted.
# --------------------------------------------------------------------------

PAREN = r'\((?:[^()]|\((?:[^()]|\((?:[^()]|\([^()]*\))*\))*\))*\)'


class Rules:
    def __init__(self):
        self.counts = {}
        self.lits = {}

    def hit(self, r, n=1):
        if n:
            self.counts[r] = self.counts.get(r, 0) + n

    def lit_name(self, t):
        t0 = t
        t = re.sub(r'_?f64$', '', t)
        if t.endswith('.'):
            t += '0'
        name = 'lit_' + re.sub(r'[^0-9a-zA-Z]', '_', t.replace('-', 'm').replace('.', 'p'))
        self.lits[name] = t
        return name + '()'

    def sub(self, r, pat, rep, b, flags=0):
        b2, n = re.subn(pat, rep, b, flags=flags)
        self.hit(r, n)
        return b2

    def slice_match(self, b):
        """R29: `match &V[..] { [p1, .., pn] (if G)? => E, ..., _ => E }` (identifier sub-patterns only, last arm `_`) -> if-chain on V.len() in arm order,
        binding pi = &V[i-1]; in a guard the identifiers are replaced by V[i-1].  Slice patterns are outside Verus.  Any other shape is left alone."""
        out = b
        for m in list(re.finditer(r'match &(\w+)\[\.\.\] \{', b)):
            v = m.group(1)
            br = m.end() - 1
            close = match_close(b, br)
            inner = re.sub(r'//[^\n]*', '', b[br + 1:close])      # line comments between arms are dropped
            arms, cur, d, k = [], '', 0, 0
            while k < len(inner):          # split at top-level commas; only ()[]{} nest here (`<=` and `=>` are not brackets), string literals are skipped
                ch = inner[k]
                if ch == '"':
                    e = k + 1
                    while inner[e] != '"':
                        e += 2 if inner[e] == '\\' else 1
                    cur += inner[k:e + 1]
                    k = e + 1
                    continue
                if ch in '([{':
                    d += 1
                elif ch in ')]}':
                    d -= 1
                if ch == ',' and d == 0:
                    arms.append(cur)
                    cur = ''
                else:
                    cur += ch
                k += 1
            arms.append(cur)
            arms = [a.strip() for a in arms if a.strip()]
            parsed = []
            ok = True
            for a in arms:
                mm = re.match(r'(?s)^(\[[^\]]*\]|_)\s*(?:if\s+(.*?))?\s*=>\s*(.*)$', a)
                if not mm:
                    ok = False
                    break
                pat, guard, expr = mm.group(1), mm.group(2), mm.group(3)
                if pat == '_':
                    parsed.append((None, None, expr))
                    continue
                names = [x.strip() for x in pat[1:-1].split(',') if x.strip()]
                if not all(re.match(r'^[a-z_]\w*$', x) for x in names):
                    ok = False
                    break
                parsed.append((names, guard, expr))
            if not ok or not parsed or parsed[-1][0] is not None or any(p[0] is None for p in parsed[:-1]):
                continue
            chain = ''
            for names, guard, expr in parsed[:-1]:
                cond = '%s.len() == %d' % (v, len(names))
                if guard:
                    g = guard
                    for k, nm in enumerate(names):
                        g = re.sub(r'\b%s\b' % nm, '%s[%d]' % (v, k), g)
                    cond += ' && (%s)' % g
                binds = ' '.join('let %s = &%s[%d];' % (nm, v, k) for k, nm in enumerate(names))
                chain += 'if %s { %s %s } else ' % (cond, binds, expr)
            chain += '{ %s }' % parsed[-1][2]
            out = out.replace(b[m.start():close + 1], chain)
            self.hit('R29')
        return out

    def apply(self, b, anyhow=True):
        # R0 method chains are joined on one line (`x\n   .f()` -> `x.f()`), so rules and substitutions do not depend on rustfmt's wrapping
        b = re.sub(r'\n\s*\.(?=[A-Za-z_])', '.', b)
        b = self.slice_match(b)
        b = self.sub('R13', r'\bcrate::v1::', 'v1::', b)
        b = self.sub('R13', r'\bcrate::(?=[A-Z])', '', b)
        # R2 float literals (also as method receivers: 2.0f64.powi)
        b = self.sub('R2', r'(?<![\w.])(\d+\.\d+(?:e-?\d+)?|\d+\.\d*e-?\d+|\d+e-?\d+)(?:_?f64)?(?![\w])', lambda m: self.lit_name(m.group(0)), b)
        b = self.sub('R2', r'(?<![\w.])(\d+)\.(?=\s*[;,)\]}{])', lambda m: self.lit_name(m.group(1) + '.0'), b)
        # R3
        for a, c in (('f64::INFINITY', 'f64_infinity()'), ('f64::NEG_INFINITY', 'f64_neg_infinity()'),
                     ('f64::EPSILON', 'f64_epsilon()'), ('f64::NAN', 'f64_nan()')):
            self.hit('R3', b.count(a))
            b = b.replace(a, c)
        # R1
        b = self.sub('R1', r'\bf64\b', 'F64', b)
        # R4 (compound assignment) is not needed: the installed Verus supports `+=` through AddAssignSpecImpl;
        # F64 carries AddAssign/SubAssign/MulAssign/DivAssign contracts in the prelude.
        # R7 context
        b = self.sub('R7', r'\.with_context\(\|\|\s*\{?\s*format!' + PAREN + r'\s*\}?\s*\)', '.vctx()', b)
        b = self.sub('R7', r'\.context\(\s*"(?:[^"\\]|\\.)*"\s*\)', '.vctx()', b)
        b = self.sub('R7', r'\.context\(\s*format!' + PAREN + r'\s*\)', '.vctx()', b)
        # R6 bail!/ensure!
        b = self.sub('R6', r'(?:anyhow::)?bail!' + PAREN + r';?', 'return Err(VErr::new());', b)

        def ens(m):
            inner = m.group(1)[1:-1]
            d = 0
            cond = inner
            k = 0
            while k < len(inner):
                ch = inner[k]
                if ch == '"':
                    k += 1
                    while inner[k] != '"':
                        if inner[k] == '\\':
                            k += 1
                        k += 1
                elif ch in '([{':
                    d += 1
                elif ch in ')]}':
                    d -= 1
                elif ch == ',' and d == 0:
                    cond = inner[:k]
                    break
                k += 1
            return 'if !(%s) { return Err(VErr::new()); }' % cond.strip()
        b = self.sub('R6', r'(?:anyhow::)?ensure!(' + PAREN + r');', ens, b)
        # R5 Result<T> -> Result<T, VErr>
        if anyhow:
            def res(m):
                inner = m.group(1)
                flat = re.sub(r'\((?:[^()]|\([^()]*\))*\)|<(?:[^<>]|<[^<>]*>)*>', '', inner)
                if ',' in flat:
                    return m.group(0)
                self.hit('R5')
                return 'Result<' + inner + ', VErr>'
            b = re.sub(r'\b(?:anyhow::)?Result<((?:[^<>]|<(?:[^<>]|<[^<>]*>)*>)*)>', res, b)
        # R13 debug_assert! is compiled out of release builds; dropped
        b = self.sub('R13', r'debug_assert!' + PAREN + r';', '', b)
        b = self.sub('R8', r'log::\w+!' + PAREN + r';', '', b)
        # R19b: `Enum::Variant as i32` on prost enums -> generated conversion (codes are 0..n in declaration order, checked by v1types)
        b = self.sub('R19', r'((?:\b\w+::)*)\b(Equality|Kind|Sense|Optimality|Relaxation)::(\w+) as i32\b',
                     lambda m: '%s_as_i32(%s%s::%s)' % (m.group(2).lower(), m.group(1), m.group(2), m.group(3)), b)
        # R12: iterator searches on a Vec -> trusted helpers whose contracts speak about the closure's own ensures
        RECV = r'((?:&?\w+)(?:\s*\.\s*\w+)*)'
        for meth, helper in (('position', 'iter_position'), ('find', 'iter_find'), ('any', 'iter_any'), ('all', 'iter_all')):
            b = self.sub('R12', RECV + r'\s*\.iter\(\)\s*\.%s\(' % meth, lambda m, h=helper: '%s(&%s, ' % (h, norm_ws(m.group(1)).replace(' ', '')), b)
        b = self.sub('R12', RECV + r'\s*\.iter_mut\(\)\s*\.find\(', lambda m: 'iter_mut_find(&mut %s, ' % norm_ws(m.group(1)).replace(' ', ''), b)
        b = self.sub('R12', RECV + r'\s*\.as_ref\(\)\s*\.is_some_and\(', lambda m: 'opt_is_some_and(%s.as_ref(), ' % norm_ws(m.group(1)).replace(' ', ''), b)
        # R18: BTreeSet::is_subset on two named sets -> trusted helper
        b = self.sub('R18', r'\b(\w+)\.is_subset\(&(\w+)\)', r'btreeset_is_subset(&\1, &\2)', b)
        # R18: `a.is_superset(&b)` is `b.is_subset(&a)` (the std definition)
        b = self.sub('R18', r'\b(\w+)\.is_superset\(&(\w+)\)', r'btreeset_is_subset(&\2, &\1)', b)
        # R15: Cow is erased (functions returning Cow<T> return T)
        b = self.sub('R15', r'\.into_owned\(\)', '', b)
        # R24: `.clone()` -> `.vclone()` (blanket trusted helper: Clone returns a structurally equal value, T4)
        b = self.sub('R24', r'\.clone\(\)', '.vclone()', b)
        return b


# --------------------------------------------------------------------------
# loops
# --------------------------------------------------------------------------

def find_loops(body):
    """list of (kind, start_idx, brace_idx) in textual order for `for`, `while`, `loop`."""
    res = []
    for m in re.finditer(r'(?<![\w.])(for|while|loop)\b', body):
        kind = m.group(1)
        # skip `for<'a>` and `impl X for Y` (not in fn bodies, but be safe)
        k = m.end()
        if kind == 'for':
            # must be followed by pattern then ` in `
            mm = re.compile(r'\s+[^;]*?\sin\s').match(body, k)
            if not mm:
                continue
            k = mm.end()
        # find the opening brace at paren depth 0
        d = 0
        j = k
        ok = False
        while j < len(body):
            ch = body[j]
            if ch in '([':
                d += 1
            elif ch in ')]':
                d -= 1
            elif ch == '{' and d == 0:
                # struct-literal braces in loop headers do not occur in this code base
                ok = True
                break
            elif ch == ';' and d == 0:
                break
            j += 1
        if ok:
            res.append((kind, m.start(), j))
    return res


AUTO_RULES = []
R27A_LATE = {}   # unit -> [(`it.index@`, `(__iK - 1)`)]: proof blocks are inserted after the loops are rewritten; inside a converted loop they name the index the same way


def annotate_loops(body, loops, unit):
    """loops: list of dicts {kind, inv (text: 'invariant ..., decreases ...'), it (iterator name, for loops)}.
    The number and kinds must equal those found (loop skeleton) else LostAnchor."""
    found = find_loops(body)
    if [k for k, _, _ in found] != [l['kind'] for l in loops]:
        raise LostAnchor('loop skeleton of %s changed: found %s, contract written for %s' %
                         (unit, [k for k, _, _ in found], [l['kind'] for l in loops]))
    # apply from last to first so indices stay valid
    idx = list(range(1, len(loops) + 1))
    for (kind, st, br), l, k in reversed(list(zip(found, loops, idx))):
        head = body[st:br]
        if kind == 'for':
            m = re.match(r'for\s+(.*?)\s+in\s+(.*)$', head, re.S)
            pat, expr = m.group(1), m.group(2).rstrip()
            if l.get('pat'):
                # R20b: `&x` sub-patterns (ref patterns are not supported by Verus) are bound by value: the sidecar gives the pattern without `&`, which must be
                # the source pattern with the `&` removed - anything else is a lost anchor
                if re.sub(r'&\s*', '', norm_ws(pat)) != norm_ws(l['pat']):
                    raise LostAnchor('loop pattern of %s changed: %r (contract written for %r)' % (unit, pat, l['pat']))
                pat = l['pat']
            if l.get('mut_index'):
                # R25: `for PAT in &mut VEC { BODY }` -> index loop with `let PAT = &mut VEC[i];` (Verus has no usable IterMut spec);
                # the body is unchanged; it must not contain break/continue
                if expr.startswith('&mut '):
                    vec = expr[len('&mut '):].strip()
                elif expr.endswith('.iter_mut()'):
                    vec = expr[:-len('.iter_mut()')].strip()
                else:
                    raise LostAnchor('loop %d of %s is not a `for .. in &mut ..` loop any more' % (k, unit))
                close = match_close(body, br)
                inner = body[br + 1:close]
                if re.search(r'\b(break|continue)\b', inner):
                    raise LostAnchor('loop %d of %s contains break/continue (R25 does not apply)' % (k, unit))
                iv = '__i%d' % k
                new = ('let mut %s: usize = 0;\n while %s < %s.len()\n %s\n{ let %s = &mut %s[%s];%s%s\n %s = %s + 1; }'
                       % (iv, iv, vec, l.get('inv') or '', pat, vec, iv, l.get('body_proof', ''), inner, iv, iv))
                body = body[:st] + new + body[close + 1:]
                continue
            if 'rebind' in l and l.get('cont'):
                # R20 + R27: a by-value / helper-fed `for` whose body uses `continue` (unsupported in Verus for-loops) becomes an index
                # `while` over the hoisted vector; the index is advanced BEFORE the body so `continue` keeps its meaning
                h = '__h%d' % k
                iv = '__i%d' % k
                head = ('let %s = %s;\n let mut %s: usize = 0;\n while %s < %s.len()\n' % (h, expr, iv, iv, h))
                body = (body[:st] + head + (l.get('inv') or '') + '\n{ let __e = &%s[%s]; %s = %s + 1; let %s = %s;' % (h, iv, iv, iv, pat, l['rebind'])
                        + l.get('body_proof', '') + body[br + 1:])
                continue
            if 'rebind' in l and re.search(r'\bcontinue\b', body[br + 1:match_close(body, br)]) and not re.search(r'\b(for|while|loop)\b', body[br + 1:match_close(body, br)]):
                # R27b (automatic): a helper-fed `for` (R20) whose body uses `continue` and contains no inner loop - Verus for-loops do not support `continue` - becomes the
                # index `while` of R27 over the hoisted vector; the sidecar invariant written for the for-loop is reused (`it.index@` -> index, index - 1 in the body)
                h = '__h%d' % k
                iv = '__i%d' % k
                itn = l['it'] + '.index@'
                inv = (l.get('inv') or '').replace(itn, iv)
                extra = '%s <= %s.len(),' % (iv, h)
                inv = re.sub(r'\binvariant\b', 'invariant ' + extra, inv, count=1) if re.search(r'\binvariant\b', inv) else 'invariant ' + extra + inv
                if 'decreases' not in inv:
                    inv = inv.rstrip().rstrip(',') + ',\n decreases %s.len() - %s,' % (h, iv)
                cur = '(%s - 1)' % iv
                close = match_close(body, br)
                inner = body[br + 1:close]
                head = ('let %s = %s;\n let mut %s: usize = 0;\n while %s < %s.len()\n' % (h, expr, iv, iv, h))
                body = (body[:st] + head + inv + '\n{ let __e = &%s[%s]; %s = %s + 1; let %s = %s;' % (h, iv, iv, iv, pat, l['rebind'])
                        + l.get('body_proof', '').replace(itn, cur) + inner.replace(itn, cur) + body[close:])
                AUTO_RULES.append('R27b:%s:loop%d' % (unit, k))
                R27A_LATE.setdefault(unit, []).append((itn, cur))
                continue
            if 'rebind' in l:
                # R20: for PAT in EXPR {..}  ->  let __hK = EXPR; for __e in it: &__hK inv { let PAT = <rebind>; ..}
                h = '__h%d' % k
                head = 'let %s = %s;\n for __e in %s: &%s\n' % (h, expr, l['it'], h)
                body = body[:st] + head + (l.get('inv') or '') + '\n{ let %s = %s;' % (pat, l['rebind']) + l.get('body_proof', '') + body[br + 1:]
                continue
            close = match_close(body, br)
            inner = body[br + 1:close]
            mvec = re.match(r'&\s*([\w\.]+)$', expr) or re.match(r'([\w\.]+)\.iter\(\)$', expr)
            if re.search(r'\bcontinue\b', inner) and mvec:
                # R27a (automatic): `for PAT in &VEC { .. continue .. }` - Verus for-loops do not support `continue` - becomes an index `while`
                # over VEC with the index advanced BEFORE the body, so `continue` keeps its meaning and the loop invariant must hold on that
                # path too.  The sidecar invariant is reused: `it.index@` is the loop index in the invariant and (index - 1) inside the body.
                vec = mvec.group(1)
                iv = '__i%d' % k
                itn = l['it'] + '.index@'
                inv = (l.get('inv') or '').replace(itn, iv)
                extra = '%s <= %s.len(),' % (iv, vec)
                if re.search(r'\binvariant\b', inv):
                    inv = re.sub(r'\binvariant\b', 'invariant ' + extra, inv, count=1)
                else:
                    inv = 'invariant ' + extra + inv
                if 'decreases' not in inv:
                    inv = inv.rstrip().rstrip(',') + ',\n decreases %s.len() - %s,' % (vec, iv)
                cur = '(%s - 1)' % iv
                new = ('let mut %s: usize = 0;\n while %s < %s.len()\n %s\n{ let %s = &%s[%s]; %s = %s + 1;%s%s}'
                       % (iv, iv, vec, inv, pat, vec, iv, iv, iv, l.get('body_proof', '').replace(itn, cur), inner.replace(itn, cur)))
                body = body[:st] + new + body[close + 1:]
                AUTO_RULES.append('R27a:%s:loop%d' % (unit, k))
                R27A_LATE.setdefault(unit, []).append((itn, cur))
                continue
            head = 'for %s in %s: %s\n' % (pat, l['it'], expr)
        body = body[:st] + head + ' ' + (l.get('inv') or '') + '\n{' + l.get('body_proof', '') + body[br + 1:]
    return body


# --------------------------------------------------------------------------
# closures (R11): |p| BODY  ->  |p: T| -> (ret: U) ensures E { BODY }   (BODY is the source text)
# --------------------------------------------------------------------------

CLOSURE_RX = re.compile(r'(?<![\w|])(move\s+)?\|([^|]*)\|(?!\|)')


def find_closures(body):
    res = []
    for m in CLOSURE_RX.finditer(body):
        # reject `||` operators and patterns like a | b in match arms: require the char before to be ( , = or whitespace after those
        pre = body[:m.start()].rstrip()
        if not pre or pre[-1] not in '(,=':
            continue
        j = m.end()
        while j < len(body) and body[j] in ' \n\t':
            j += 1
        if j < len(body) and body[j] == '{':
            e = match_close(body, j) + 1
        else:
            d = 0
            e = j
            while e < len(body):
                ch = body[e]
                if ch in '([{':
                    d += 1
                elif ch in ')]}':
                    if d == 0:
                        break
                    d -= 1
                elif ch == ',' and d == 0:
                    break
                elif ch == ';' and d == 0:
                    break
                e += 1
        res.append((m.start(), m.end(), j, e, m.group(2)))
    return res


def annotate_closures(body, closures, unit):
    found = find_closures(body)
    if len(found) != len(closures):
        raise LostAnchor('closure skeleton of %s changed: found %d closures, contract written for %d' % (unit, len(found), len(closures)))
    for k in reversed(range(len(closures))):
        found = find_closures(body)
        st, pe, bs, be, params = found[k]
        c = closures[k]
        src = body[bs:be]
        # a sidecar may give alternatives for a closure (`alts`): the neighbouring idioms of the statement it belongs to, each with its own types and contract
        for alt in c.get('alts', ()):
            if norm_ws(params) == norm_ws(alt['params']):
                c = alt
                break
        if norm_ws(params) != norm_ws(c['params']):
            # R30b: the same parameter pattern with other identifiers is alpha-renamed to the sidecar's names (capture-free: a new name must not occur in the closure already)
            ids_src = re.findall(r'[A-Za-z_]\w*', params)
            ids_dst = re.findall(r'[A-Za-z_]\w*', c['params'])
            shape = lambda t: re.sub(r'[A-Za-z_]\w*', '#', norm_ws(t))
            KEEP = ('_', 'mut', 'ref')
            if shape(params) != shape(c['params']) or len(ids_src) != len(ids_dst) or any((a in KEEP or b in KEEP) and a != b for a, b in zip(ids_src, ids_dst)) \
                    or any(a[:1].isupper() or b[:1].isupper() for a, b in zip(ids_src, ids_dst) if a != b):
                raise LostAnchor('closure %d of %s has parameters |%s|, contract written for |%s|' % (k + 1, unit, params, c['params']))
            ren = [(a, b) for a, b in zip(ids_src, ids_dst) if a != b]
            for a, b in ren:
                if re.search(r'(?<![\w.])%s\b' % re.escape(b), src) and b not in ids_src:
                    raise LostAnchor('closure %d of %s: cannot rename parameter %s to %s (name in use)' % (k + 1, unit, a, b))
            tmp = src
            for n, (a, b) in enumerate(ren):
                tmp = re.sub(r'(?<![\w.])%s\b(?!\s*:(?!:))' % re.escape(a), '\x00%d\x00' % n, tmp)
            for n, (a, b) in enumerate(ren):
                tmp = tmp.replace('\x00%d\x00' % n, b)
            src = tmp
        inner = src if src.lstrip().startswith('{') else '{ ' + src.strip() + ' }'
        if c.get('bind'):
            # R11b: closure parameter PATTERNS (tuples, `_`) are not accepted by Verus: the typed parameter gets a name and the pattern is bound by a `let` in front of the body
            inner = '{ ' + c['bind'] + ' ' + inner + ' }'
        new = '|%s| -> (ret: %s)%s%s %s' % (c['typed'], c['ret'], (' requires ' + c['requires']) if c.get('requires') else '', (' ensures ' + c['ensures']) if c.get('ensures') else '', inner)
        body = body[:st] + new + body[be:]
    return body


# --------------------------------------------------------------------------
# R31: iterator pipelines instantiated at Vec
# --------------------------------------------------------------------------
PIPE_ADAPTERS = ('iter', 'into_iter', 'map', 'chain', 'filter', 'cloned', 'copied', 'flat_map', 'collect')


def _top_calls(e):
    """split `base.m1(a1).m2(a2)...` at top level: returns (base, [(name, args)])"""
    d = 0
    i = 0
    cuts = []
    while i < len(e):
        ch = e[i]
        if ch in '([{':
            d += 1
        elif ch in ')]}':
            d -= 1
        elif ch == '.' and d == 0 and not e[i:i + 2] == '..' and not (i > 0 and e[i - 1] == '.'):
            m = re.match(r'\.\s*(\w+)\s*\(', e[i:])
            if m:
                op = i + m.end() - 1
                cl = match_close(e, op, '(', ')')
                cuts.append((i, m.group(1), e[op + 1:cl], cl + 1))
                i = cl + 1
                continue
        i += 1
    if not cuts:
        return e.strip(), []
    # the calls must be contiguous up to the end of the expression
    k = len(cuts) - 1
    if e[cuts[k][3]:].strip():
        return e.strip(), []
    if cuts[k][1] not in PIPE_ADAPTERS:
        return e.strip(), []
    while k > 0 and e[cuts[k - 1][3]:cuts[k][0]].strip() == '' and cuts[k - 1][1] in PIPE_ADAPTERS:
        k -= 1
    return e[:cuts[k][0]].strip(), [(n, a) for (_, n, a, _) in cuts[k:]]


def pipeline(e, hit=None, ctr=None, opts=None, flat_into=None):
    """R31: an iterator pipeline (`.iter()`, `(a..b).map(C)`, `.map(C)`, `.chain(P)`, `.filter(C)`, `.cloned()`, `.flat_map(C)`, `std::iter::once(x)`, `std::iter::empty()`, `Box::new(P)`, a final
    `.collect()` named by the sidecar) is instantiated at Vec: each adapter becomes one `let __<adapter><k> = helper(..);` with the adapter's std contract (prelude/std_helpers.rs), in evaluation
    order; the closures are the source text.  Anything else is outside the rule (LostAnchor).  Returns a block expression, or - for `let NAME = P;` (flat_into=NAME) - the flat statement list
    ending in `let NAME = <last step>;`, so that the steps stay in scope for the proof text."""
    ctr = ctr if ctr is not None else {}
    stmts, res = _pipe(e, hit, ctr, opts)
    if flat_into is not None:
        return ' '.join(stmts) + (' ' if stmts else '') + 'let %s = %s;' % (flat_into, res)
    if not stmts:
        return res
    return '{ ' + ' '.join(stmts) + ' ' + res + ' }'


PIPE_MARKERS = ('iter', 'into_iter', 'chain', 'cloned', 'copied', 'flat_map')


def is_pipeline(e, bound=()):
    """does the expression start an iterator pipeline (conservatively: an unambiguous adapter, a range / once / empty source, or a local already bound to a pipeline)?"""
    e = e.strip()
    if re.match(r'^(?:std::iter::|iter::)?(once\s*\(|empty\s*\(\s*\)$)', e):
        return True
    base, calls = _top_calls(e)
    if not calls:
        return False
    names = [n for n, _ in calls]
    return any(n in PIPE_MARKERS for n in names) or bool(re.match(r'^\(\s*.+\.\..+\)$', base)) or base in bound


def _pipe(e, hit, ctr, opts=None):
    opts = opts or {}

    def bind(kind, expr, stmts):
        ctr[kind] = ctr.get(kind, 0) + 1
        nm = '__%s%d' % (kind, ctr[kind])
        stmts.append('let %s = %s;' % (nm, expr))
        if hit:
            hit('R31')
        return nm
    e = e.strip().rstrip(',').strip()
    m = re.match(r'^Box::new\s*\(', e)
    if m and match_close(e, m.end() - 1, '(', ')') == len(e) - 1:
        return _pipe(e[m.end():-1], hit, ctr, opts)
    stmts = []
    m = re.match(r'^(?:std::iter::|iter::)?once\s*\(', e)
    if m and match_close(e, m.end() - 1, '(', ')') == len(e) - 1:
        return stmts, bind('once', 'vec_once(%s)' % e[m.end():-1].strip(), stmts)
    if re.match(r'^(?:std::iter::|iter::)?empty\s*\(\s*\)$', e):
        return stmts, bind('empty', 'vec_empty()', stmts)
    base, calls = _top_calls(e)
    if not calls:
        return stmts, base          # an already collected value (a local bound to a pipeline, or a call of a unit whose iterator is instantiated at Vec)
    cur = base
    first = True
    for name, args in calls:
        if name not in PIPE_ADAPTERS:
            raise LostAnchor('iterator adapter .%s() is outside rule R31' % name)
        clo = re.sub(r'^\s*move\s+', '', args.strip())
        if name == 'iter':
            if args.strip():
                raise LostAnchor('iter() with arguments')
            cur = bind('refs', 'vec_refs(&%s)' % cur, stmts)
        elif name == 'into_iter':
            # the typed unit (R22: returns Vec), or the helper the sidecar names for a std collection (e.g. BTreeSet -> btreeset_into_vec)
            cur = bind('into', ('%s(%s)' % (opts['into_iter'], cur)) if opts.get('into_iter') else ('%s.into_iter()' % cur), stmts)
        elif name in ('cloned', 'copied'):
            cur = bind('cloned', 'vec_cloned(%s)' % cur, stmts)
        elif name == 'flat_map':
            # the closure returns an iterator: its body is a pipeline too
            cm = re.match(r'^\|([^|]*)\|\s*(.*)$', clo, re.S)
            if not cm:
                raise LostAnchor('flat_map argument is not a closure')
            st3, r3 = _pipe(cm.group(2), hit, ctr, opts)
            cur = bind('flat', 'vec_flat_map(%s, |%s| { %s %s })' % (cur, cm.group(1), ' '.join(st3), r3), stmts)
        elif name == 'collect':
            if not opts.get('collect'):
                raise LostAnchor('collect() without a target named by the sidecar')
            cur = bind('coll', '%s(%s)' % (opts['collect'], cur), stmts)
        elif name == 'map':
            rm = re.match(r'^\(\s*(.+?)\s*\.\.\s*(.+?)\s*\)$', cur) if first else None
            if rm:
                cur = bind('map', '%s(%s, %s, %s)' % (opts.get('range', 'range_map_collect'), rm.group(1), rm.group(2), clo), stmts)
            else:
                cur = bind('map', 'vec_map_collect(%s, %s)' % (cur, clo), stmts)
        elif name == 'chain':
            st2, r2 = _pipe(args, hit, ctr, opts)
            stmts.extend(st2)
            cur = bind('chain', 'vec_chain(%s, %s)' % (cur, r2), stmts)
        elif name == 'filter':
            cur = bind('filter', 'vec_filter(%s, %s)' % (cur, clo), stmts)
        first = False
    return stmts, cur


def let_pipelines(body, hit, ctr, opts):
    """R31 for `let NAME = <pipeline>;` statements: found by scanning, converted to flat statement lists (the steps stay in scope)"""
    bound = []
    out = []
    i = 0
    rx = re.compile(r'\blet\s+(?:mut\s+)?([a-z_]\w*)\s*(?::\s*[\w<>:, _&]+?)?\s*=\s*')
    while True:
        m = rx.search(body, i)
        if not m:
            out.append(body[i:])
            break
        # scan to the `;` that ends the statement
        d = 0
        j = m.end()
        while j < len(body):
            ch = body[j]
            if ch in '([{':
                d += 1
            elif ch in ')]}':
                d -= 1
                if d < 0:
                    break
            elif ch == ';' and d == 0:
                break
            j += 1
        if j >= len(body) or body[j] != ';':
            out.append(body[i:m.end()])
            i = m.end()
            continue
        rhs = body[m.end():j]
        if is_pipeline(rhs, bound):
            out.append(body[i:m.start()])
            out.append(pipeline(rhs, hit, ctr, opts, flat_into=('mut ' if re.match(r'let\s+mut\b', m.group(0)) else '') + m.group(1)))
            bound.append(m.group(1))
            i = j + 1
        else:
            out.append(body[i:j + 1])
            i = j + 1
    return ''.join(out)


# --------------------------------------------------------------------------
# units
# --------------------------------------------------------------------------

class Unit:
    """One function of /repo under contract."""

    def __init__(self, name, file, fn, header, impl=None, sig=None, wrap=('', ''), loops=(), subs=(), proofs=(),
                 pre='', anyhow=True, fn_rx=None, serves=(), note='', rules=True, post_subs=(), text=None, subs_all=(), closures=None, rsubs=(), mut_self=False, strlit=False, renames=(), pipes=None, pipe_opts=None, pre_rsubs=()):
        self.pre_rsubs = list(pre_rsubs)   # (regex, replacement, expected count) applied BEFORE the pipeline rule R31
        self.pipe_opts = pipe_opts or {}   # R31 options: collect=<helper for the final .collect()>, into_iter=<helper for .into_iter() on a std collection>
        self.pipes = pipes        # R31: None = off; else list of regexes (one group each) whose group is an iterator pipeline, in addition to every `Box::new(<pipeline>)`
        self.renames = list(renames)   # R30: (regex with one group, canonical name): alpha-rename a local to the name the sidecar uses
        self.name = name          # display name, e.g. "Bound::pow"
        self.file = file
        self.impl = impl          # regex of the impl header (None = free fn)
        self.fn = fn
        self.fn_rx = fn_rx or (r'(?:pub(?:\([a-z]+\))?\s+)?fn\s+%s\s*[(<]' % re.escape(fn))
        self.header = header      # Verus header replacing the signature (contract)
        self.sig = sig            # expected normalised source signature (None = not checked)
        self.wrap = wrap
        self.loops = list(loops)
        self.subs = list(subs)    # (from, to) exact-text, each exactly once, applied after the rules
        self.post_subs = list(post_subs)
        self.subs_all = list(subs_all)   # (from, to, count): every occurrence, count must match
        self.mut_self = mut_self
        self.strlit = strlit      # R8: string literals -> StrLit(<crc32 of the text>) (identity of literals only)
        self.rsubs = list(rsubs)         # (regex, replacement, expected count) applied after the rules
        self.closures = closures  # None = not checked; else list of dicts (params, typed, ret, ensures)
        self.proofs = list(proofs)  # (anchor, text): anchor 'start' | ('before', regex) | ('after', regex)
        self.pre = pre            # text emitted before the impl (e.g. SpecImpl blocks)
        self.anyhow = anyhow
        self.apply_rules = rules
        self.text = text          # optional (text, line) override: e.g. a mechanically expanded macro invocation
        self.info = {}

    def render(self, rules):
        if self.text is not None:
            t, ln = self.text
            a, i, j = find_block(t, self.fn_rx, what='(fn in expanded text of %s)' % self.name)
            f = dict(sig=norm_ws(t[a:i]), body=t[i:j + 1], line=ln, body_line=ln, file=self.file,
                     src_sha=hashlib.sha256(t[a:j + 1].encode()).hexdigest()[:16])
        else:
            f = get_fn(self.file, self.impl, self.fn_rx)
        body = f['body']
        # R32: module-level numeric constants of the same file (`const NAME: f64 = <literal>;`) are inlined (the extracted function would otherwise refer to an item outside the assembly)
        if self.text is None:
            try:
                src_all = strip_comments(load(self.file))
            except Exception:
                src_all = ''
            for cm in re.finditer(r'(?m)^\s*(?:pub(?:\([a-z]+\))?\s+)?const\s+([A-Z][A-Z0-9_]*)\s*:\s*(f64|f32|u64|u32|usize|i64|i32)\s*=\s*(-?[0-9][0-9_.eE+\-]*(?:_?(?:f64|f32|u64|u32|usize|i64|i32))?)\s*;', src_all):
                nm, ty, val = cm.group(1), cm.group(2), cm.group(3)
                body, k = re.subn(r'(?<![\w:.])%s\b(?!\s*[:(!])' % re.escape(nm), val, body)
                rules.hit('R32', k)
        if self.sig is not None and norm_ws(self.sig) != f['sig']:
            # R30c: a signature that differs from the expected one only in the NAMES of its parameters: the parameters are alpha-renamed in the body to the names the contract uses
            # (capture-free: a new name must not occur in the body already)
            prx = r'(?<![\w:])(?:mut\s+)?([a-z_]\w*)\s*:(?!:)'
            want, got = norm_ws(self.sig), f['sig']
            a_names, b_names = re.findall(prx, got), re.findall(prx, want)
            mask = lambda t: re.sub(prx, lambda m: m.group(0).replace(m.group(1), '#'), t)
            if len(a_names) != len(b_names) or mask(got) != mask(want):
                raise LostAnchor('signature of %s changed: %r (contract written for %r)' % (self.name, f['sig'], norm_ws(self.sig)))
            ren = [(a, b) for a, b in zip(a_names, b_names) if a != b]
            for a, b in ren:
                if re.search(r'(?<![\w.])%s\b' % re.escape(b), body) and b not in a_names:
                    raise LostAnchor('signature of %s changed: parameter %s cannot be renamed to %s (name in use)' % (self.name, a, b))
                if re.search(r'\{[^{}()]*(?<![\w.])%s\s*[,}]' % re.escape(a), body):
                    # possibly a field-init shorthand `S { a, .. }`: the name is a field label there, not only a variable
                    raise LostAnchor('signature of %s changed: parameter %s may be used as a field-init shorthand' % (self.name, a))
            for n, (a, b) in enumerate(ren):
                body = re.sub(r'(?<![\w.])%s\b(?!\s*:(?!:))' % re.escape(a), '\x00%d\x00' % n, body)
            for n, (a, b) in enumerate(ren):
                body = body.replace('\x00%d\x00' % n, b)
            rules.hit('R30', len(ren))
        if self.apply_rules:
            body = rules.apply(body, anyhow=self.anyhow)
        for rx, canon in self.renames:
            # R30: a local variable introduced by the statement matching `rx` is alpha-renamed to the name the sidecar uses, when the source uses another name and the
            # sidecar's name does not occur in the function (a capture-free renaming of a local: nothing is lost)
            ms = re.findall(rx, body)
            if len(ms) != 1:
                continue        # the statement itself is checked by the substitutions / anchors that follow
            nm = ms[0]
            if nm != canon:
                if re.search(r'(?<![\.\w])%s\b(?!\s*:(?!:))' % re.escape(canon), body):      # field labels `name:` do not count
                    raise LostAnchor('local %r of %s cannot be renamed to %r: that name is in use' % (nm, self.name, canon))
                body = re.sub(r'(?<![\.\w])%s\b(?!\s*:(?!:))' % re.escape(nm), canon, body)
                rules.hit('R30')
        if self.strlit:
            body, n = re.subn(r'"((?:[^"\\]|\\.)*)"', lambda m: strlit_of(m.group(1)), body)
            rules.hit('R8', n)
        if self.strlit:
            body = explicit_err_conversion(body, rules)
        if self.mut_self:
            # R16: Verus does not support `mut self`: bind it to a local and rename
            if not re.search(r'\(\s*mut self\b', f['sig']):
                raise LostAnchor('%s no longer takes `mut self`' % self.name)
            body = re.sub(r'\bself\b', 'this', body)
            body = '{ let mut this = self;' + body[1:]
        for rx, rep, cnt in self.pre_rsubs:
            body, n = re.subn(rx, rep, body)
            if cnt is not None and n != cnt:
                raise LostAnchor('pattern %r occurs %d times in %s (contract written for %d)' % (rx, n, self.name, cnt))
        if self.pipes is not None:
            # R31: iterator pipelines instantiated at Vec
            pctr = {}
            body = let_pipelines(body, rules.hit, pctr, self.pipe_opts)
            for rx in self.pipes:
                ms = list(re.finditer(rx, body))
                if len(ms) != 1:
                    raise LostAnchor('pipeline anchor %r matched %d times in %s' % (rx, len(ms), self.name))
                body = body[:ms[0].start(1)] + pipeline(ms[0].group(1), rules.hit, pctr, self.pipe_opts) + body[ms[0].end(1):]
            while True:
                m = re.search(r'Box::new\s*\(', body)
                if not m:
                    break
                cl = match_close(body, m.end() - 1, '(', ')')
                body = body[:m.start()] + pipeline(body[m.end():cl], rules.hit, pctr, self.pipe_opts) + body[cl + 1:]
        for a, b in self.subs:
            if body.count(a) != 1:
                raise LostAnchor('substitution source %r occurs %d times in %s' % (a, body.count(a), self.name))
            body = body.replace(a, b)
        for rx, rep, cnt in self.rsubs:
            body, n = re.subn(rx, rep, body)
            if cnt is not None and n != cnt:
                raise LostAnchor('pattern %r occurs %d times in %s (contract written for %d)' % (rx, n, self.name, cnt))
        for a, b, cnt in self.subs_all:
            if body.count(a) != cnt:
                raise LostAnchor('substitution source %r occurs %d times in %s (contract written for %d)' % (a, body.count(a), self.name, cnt))
            body = body.replace(a, b)
        if self.closures is not None:
            body = annotate_closures(body, self.closures, self.name)
        body = annotate_loops(body, self.loops, self.name)
        for a, b in self.post_subs:
            if body.count(a) != 1:
                raise LostAnchor('substitution source %r occurs %d times in %s' % (a, body.count(a), self.name))
            body = body.replace(a, b)
        for anchor, text in self.proofs:
            if anchor == 'start':
                body = '{' + text + body[1:]
            else:
                kind, rx = anchor
                ms = list(re.finditer(rx, body))
                if len(ms) != 1:
                    raise LostAnchor('proof anchor %r matched %d times in %s' % (rx, len(ms), self.name))
                pos = ms[0].start() if kind == 'before' else ms[0].end()
                body = body[:pos] + text + body[pos:]
        for itn, cur in R27A_LATE.pop(self.name, []):
            body = body.replace(itn, cur)
        text = self.pre + self.wrap[0] + '\n' + self.header.rstrip() + '\n' + body + '\n' + self.wrap[1] + '\n'
        self.info = dict(unit=self.name, file='rust/ommx/src/' + self.file, line=f['line'], src_sha256=f['src_sha'],
                         extracted_sha256=hashlib.sha256(body.encode()).hexdigest()[:16],
                         loops=[l['kind'] for l in self.loops], substitutions=len(self.subs) + len(self.post_subs),
                         proof_blocks=len(self.proofs))
        # line bookkeeping: header lines, then body starts at repo line f['body_line']
        return text, f


def explicit_err_conversion(body, rules):
    """R26: `X.ok_or(RawParseError::..)?` -> `X.ok_or(ParseError::from(RawParseError::..))?` - the installed Verus does not model the
    implicit `From` conversion performed by `?`; the conversion call is the one `?` would make."""
    out = []
    i = 0
    while True:
        k = body.find('.ok_or(', i)
        if k < 0:
            out.append(body[i:])
            break
        p0 = k + len('.ok_or')
        p1 = match_close(body, p0, '(', ')')
        inner = body[p0 + 1:p1]
        if inner.lstrip().startswith('RawParseError::') and body[p1 + 1:p1 + 2] == '?':
            out.append(body[i:p0] + '(ParseError::from(' + inner + '))')
            rules.hit('R26')
        else:
            out.append(body[i:p1 + 1])
        i = p1 + 1
    return ''.join(out)


def strlit_of(text):
    import zlib
    return 'StrLit(%d)' % zlib.crc32(text.encode())


def expand_sl(text):
    """sl!("...") in hand-written contracts -> the same StrLit(<crc32>) the extractor produces for that literal"""
    return re.sub(r'sl!\("((?:[^"\\]|\\.)*)"\)', lambda m: strlit_of(m.group(1)), text)


class Assembly:
    """Builds the single file and keeps a line map."""

    def __init__(self, prop):
        self.prop = prop
        self.parts = []   # (kind, name, text, meta)
        self.rules = Rules()
        self.units = []
        self.stubs = []

    def raw(self, text, name='lib', kind='lib'):
        if kind == 'lemma':
            kind = 'lib'
        self.parts.append((kind, name, text, None))

    def file(self, relpath, kind='lib'):
        p = os.path.join(VERIF, 'vx', relpath)
        self.parts.append((kind, relpath, open(p).read(), None))

    def unit(self, u):
        text, f = u.render(self.rules)
        self.units.append(u)
        self.parts.append(('unit', u.name, text, f))

    def stub(self, u, proved_in=''):
        """callee contract assumed in this file (its body is verified in another property's file, or not at all)"""
        hdr = u.header.rstrip()
        text = u.pre + u.wrap[0] + '\n#[verifier::external_body]\n' + hdr + '\n{ unimplemented!() }\n' + u.wrap[1] + '\n'
        self.stubs.append(dict(unit=u.name, proved_in=proved_in))
        self.parts.append(('stub', u.name, text, None))

    def extracted(self, text, name):
        """types / macro expansions taken from the repo by the property's own extraction code"""
        self.parts.append(('extracted', name, text, None))

    def guard(self, text, name):
        self.parts.append(('guard', name, text, None))

    def literal_fns(self, known=None):
        """generated lit_*() helpers (rule R2). value as exact decimal -> real quotient."""
        out = []
        for name, t in sorted(self.rules.lits.items()):
            num, den = dec_to_frac(t)
            out.append('#[verifier::external_body]\npub fn %s() -> (r: F64) ensures r@ == XR::Fin(%sreal / %sreal) { F64 { v: %s } }\n'
                       % (name, num, den, t if re.search(r'[.e]', t) else t + '.0'))
        return ''.join(out)

    def build(self, lits_marker='//@LITERALS@'):
        lines = []
        self.map = []   # (first_line, last_line, kind, name, meta)
        cur = 1
        texts = []
        for kind, name, text, meta in self.parts:
            if lits_marker in text:
                text = text.replace(lits_marker, self.literal_fns())
            text = expand_sl(text)
            if not text.endswith('\n'):
                text += '\n'
            n = text.count('\n')
            self.map.append((cur, cur + n - 1, kind, name, meta))
            cur += n
            texts.append(text)
        return ''.join(texts)

    def locate(self, line):
        for a, b, kind, name, meta in self.map:
            if a <= line <= b:
                return kind, name, meta, a
        return 'unknown', '?', None, 0


def dec_to_frac(t):
    """'1e-6' -> ('1','1000000'); '0.5' -> ('5','10'); '2.0' -> ('20','10')"""
    m = re.match(r'^(\d+)(?:\.(\d*))?(?:e(-?\d+))?$', t)
    if not m:
        raise ValueError(t)
    ip, fp, ex = m.group(1), m.group(2) or '', int(m.group(3) or 0)
    num = int(ip + fp)
    den = 10 ** len(fp)
    if ex >= 0:
        num *= 10 ** ex
    else:
        den *= 10 ** (-ex)
    return str(num), str(den)


# --------------------------------------------------------------------------
# verifier
# --------------------------------------------------------------------------

OBLIGATION_MSGS = (
    'postcondition not satisfied', 'precondition not satisfied', 'invariant not satisfied',
    'assertion failed', 'unable to prove post-condition of closure', 'decreases not satisfied',
    'possible arithmetic underflow/overflow', 'possible division by zero', 'loop invariant not satisfied',
    'recommendation not met', 'could not prove termination', 'index out of bounds',
    'possible bit shift underflow/overflow', 'unable to prove assertion', 'unreachable',
)


def classify(msg):
    m = msg.lower()
    if 'resource limit' in m or 'rlimit' in m or 'timed out' in m or 'canceled' in m:
        return 'rlimit'
    for o in OBLIGATION_MSGS:
        if o in m:
            return 'obligation'
    if 'decreases' in m or 'termination' in m:
        return 'obligation'
    if 'not satisfied' in m or 'failed' in m and 'assert' in m:
        return 'obligation'
    return 'tool'


def run_verus(path, rlimit=None, extra=(), timeout=900):
    cmd = ['verus', path, '--triggers-mode', 'silent', '--output-json', '--time', '--multiple-errors', '50'] + list(extra)
    if rlimit:
        cmd += ['--rlimit', str(rlimit)]
    t0 = time.time()
    env = dict(os.environ)
    # own process group: on a timeout the solver processes (grandchildren) are killed too, not left spinning
    p = subprocess.Popen(cmd, stdout=subprocess.PIPE, stderr=subprocess.PIPE, text=True, cwd=os.path.dirname(path), env=env, start_new_session=True)
    try:
        out, err = p.communicate(timeout=timeout)
        rc = p.returncode
    except subprocess.TimeoutExpired:
        import signal
        try:
            os.killpg(p.pid, signal.SIGKILL)
        except Exception:
            p.kill()
        try:
            out, _ = p.communicate(timeout=10)
        except Exception:
            out = ''
        out, err, rc = out or '', 'verus timed out', 124
    wall = time.time() - t0
    js = None
    try:
        js = json.loads(out)
    except Exception:
        # sometimes notes precede JSON
        k = out.find('{')
        try:
            js = json.loads(out[k:]) if k >= 0 else None
        except Exception:
            js = None
    errors = parse_errors(err)
    return dict(cmd=' '.join(cmd), rc=rc, json=js, stderr=err, errors=errors, wall=wall)


def parse_errors(err):
    """split rustc-style diagnostics: returns list of dict(level,msg,line,text)"""
    res = []
    blocks = re.split(r'\n(?=(?:error|warning|note)(?:\[[A-Z0-9]+\])?: )', '\n' + err)
    for b in blocks:
        b = b.strip('\n')
        m = re.match(r'(error|warning|note)(\[[A-Z0-9]+\])?: (.*)', b)
        if not m:
            continue
        level, code, msg = m.group(1), m.group(2), m.group(3)
        if level != 'error':
            continue
        if msg.startswith('aborting due to'):
            continue
        lm = re.search(r'-->\s*[^:\n]+:(\d+):(\d+)', b)
        # every span line in the block
        spans = [int(x) for x in re.findall(r'^\s*(\d+)\s*\|', b, re.M)]
        res.append(dict(level=level, code=code, msg=msg, line=int(lm.group(1)) if lm else 0, spans=spans, text=b))
    return res


# --------------------------------------------------------------------------
# type extraction
# --------------------------------------------------------------------------

def get_type(file, kind, name, rules, keep_derives=('Debug', 'Clone', 'Copy', 'PartialEq', 'Eq', 'PartialOrd', 'Ord', 'Hash', 'Default'),
             drop_derives=()):
    """Extract `pub struct NAME {..}` / `pub enum NAME {..}` with its derive list.
    Fields are made `pub` (visibility only, rule R23); attributes on fields/variants dropped (R13);
    explicit discriminants dropped (R19).  Returns dict(text, derives, line)."""
    s = load(file)
    rx = r'(?:pub(?:\([a-z]+\))?\s+)?%s\s+%s\b[^;{(]*\{' % (kind, re.escape(name))
    a, i, j = find_block(s, rx, what='(%s %s in %s)' % (kind, name, file))
    # attributes immediately before
    pre = s[:a].rstrip()
    derives = []
    while True:
        m = re.search(r'#\[([^\[\]]*(?:\[[^\]]*\])?[^\[\]]*)\]\s*$', pre)
        if not m:
            break
        attr = m.group(1)
        dm = re.match(r'derive\((.*)\)$', attr.strip(), re.S)
        if dm:
            derives += [d.strip() for d in dm.group(1).split(',') if d.strip()]
        pre = pre[:m.start()].rstrip()
    body = s[i:j + 1]
    body = re.sub(r'#\[[^\]]*\]\s*', '', body)           # field/variant attributes
    if kind == 'struct':
        body = re.sub(r'(?m)^(\s*)(?:pub(?:\([a-z]+\))?\s+)?(\w+\s*:)', r'\1pub \2', body)
    else:
        body = re.sub(r'\s*=\s*-?\d+\s*,', ',', body)   # R19
    body = rules.apply(body, anyhow=False)
    kept = [d.split('::')[-1] for d in derives if d.split('::')[-1] in keep_derives and d.split('::')[-1] not in drop_derives]
    text = ('#[derive(%s)]\n' % ', '.join(kept) if kept else '') + 'pub %s %s %s\n' % (kind, name, body)
    if 'PartialEq' in kept and 'Eq' in kept:
        text += 'unsafe impl Structural for %s {}\n' % name   # T4: derived Eq is structural equality (derive(Structural) panics inside modules)
    return dict(text=text, derives=[d.split('::')[-1] for d in derives], line=line_of(s, a), file=file)


def macro_body(file, name):
    """the single-arm body of `macro_rules! name { (pattern) => { BODY }; }` -> (params, BODY)"""
    s = load(file)
    a, i, j = find_block(s, r'macro_rules!\s+%s\s*\{' % re.escape(name), what='(macro %s)' % name)
    inner = s[i + 1:j]
    m = re.match(r'\s*\(([^)]*)\)\s*=>\s*\{', inner)
    if not m:
        raise LostAnchor('macro %s has an unexpected shape' % name)
    params = re.findall(r'\$(\w+)\s*:\s*\w+', m.group(1))
    k = inner.index('{', m.end() - 1)
    e = match_close(inner, k)
    return params, inner[k + 1:e]


def macro_invocations(file, name):
    s = load(file)
    res = []
    for m in re.finditer(r'(?<![\w!])%s!\s*\(([^;]*?)\)\s*;' % re.escape(name), s):
        # skip the definition's own `macro_rules! name`
        args = [a.strip() for a in split_top(m.group(1))]
        res.append((args, line_of(s, m.start())))
    return res


def split_top(t):
    out = []
    d = 0
    cur = ''
    for ch in t:
        if ch in '([{<':
            d += 1
        elif ch in ')]}>':
            d -= 1
        if ch == ',' and d == 0:
            out.append(cur)
            cur = ''
        else:
            cur += ch
    if cur.strip():
        out.append(cur)
    return out


def expand_macro(def_file, name, args):
    params, body = macro_body(def_file, name)
    if len(params) != len(args):
        raise LostAnchor('macro %s arity changed' % name)
    for p, a in zip(params, args):
        body = re.sub(r'\$%s\b' % p, a, body)
    return body


def get_newtype(file, name, rules):
    """`pub struct NAME(u64);` with derive_more From/Deref -> struct + generated one-line impls (R13)."""
    s = load(file)
    ms = list(re.finditer(r'pub struct %s\((?:pub\s+)?(\w+)\);' % re.escape(name), s))
    if len(ms) != 1:
        raise LostAnchor('newtype %s not found in %s' % (name, file))
    inner = ms[0].group(1)
    pre = s[:ms[0].start()].rstrip()
    m = re.search(r'#\[derive\(([^)]*)\)\]\s*$', pre)
    derives = [d.strip().split('::')[-1] for d in m.group(1).split(',')] if m else []
    keep = [d for d in derives if d in ('Debug', 'Clone', 'Copy', 'PartialEq', 'Eq', 'PartialOrd', 'Ord', 'Hash')]
    t = '#[derive(%s)]\npub struct %s(pub %s);\n' % (', '.join(keep), name, inner)
    if 'PartialEq' in keep and 'Eq' in keep:
        t += 'unsafe impl Structural for %s {}\n' % name
    if 'From' in derives:
        t += ('impl vstd::std_specs::convert::FromSpecImpl<%s> for %s { open spec fn obeys_from_spec() -> bool { true } open spec fn from_spec(v: %s) -> Self { %s(v) } }\n'
              'impl From<%s> for %s { fn from(v: %s) -> (r: Self) ensures r.0 == v { %s(v) } }\n' % (inner, name, inner, name, inner, name, inner, name))
    if 'Deref' in derives:
        t += 'impl %s { pub fn deref(&self) -> (r: &%s) ensures *r == self.0 { &self.0 } }\n' % (name, inner)
    return dict(text=t, derives=derives, line=line_of(s, ms[0].start()))
